------------------------------- MODULE Links -------------------------------
(* P-spec of C06: mailboxes and channels are reliable FIFO exactly-once transactional   *)
(* links. Written as a deterministic monitor over the events observable at the public   *)
(* ArchetypeResource API of a link end-point (see harness/cmd/c06drv: a decorator logs   *)
(* every call into the real resource). The monitor state is exactly what the property    *)
(* talks about:                                                                          *)
(*   q[s][r]   committed batches of s not yet obtained by r (a batch = the messages one   *)
(*             section of s sent to r, in order)                                          *)
(*   ob[p]     writes of p's section in flight (invisible until p's Commit starts)        *)
(*   inf[p]    messages obtained by p's section in flight                                 *)
(*   red[p]    messages to be redelivered first (read by aborted sections)                *)
(*   cur[p]    rest of the batch p is in the middle of (contiguity)                       *)
(*   lastd[s][r]  sequence number of the last message r obtained from s (classification)  *)
(*   pd        relaxed flavour: messages delivered while their WriteValue had not returned*)
(*   abm       messages written by sections that aborted (classification)                 *)
(*   bad       "" or the class of the first violation                                     *)
(* LStep(L, e) consumes one event. The same monitor is composed with the M-specs         *)
(* (TCPMailbox, RelaxedMailbox, Chan) where TLC checks M => P exhaustively, and folded   *)
(* over logs of the real code by LinksObs.tla.                                           *)
(*                                                                                       *)
(* Events (p = node performing the call, m = [s |-> sender, q |-> seq]):                  *)
(*   ws p to m   WriteValue called          wk p to m  ...returned nil                    *)
(*   wf p to m   ...returned an error (the section aborts)                                *)
(*   rd p m      ReadValue returned m       rt p       ReadValue returned 'aborted'       *)
(*   ln p n      the length resource returned n                                          *)
(*   cs p        Commit called on p's end-point (PreCommit of every resource succeeded)   *)
(*   ce p        Commit completed           ab p       Abort called                       *)
(*   fd p m      the environment put m into the Go channel read by p (channel flavour)    *)
(*   qs p        quiescence: every sender is done and p has drained its mailbox           *)
(*   px          the resource code panicked (the process hosting the resources died)      *)
(* Flavours: "tcp" and "chan": writes become visible when Commit starts (tcp: as one      *)
(* contiguous batch; chan: in order);                                                     *)
(* "relaxed": a write is visible from the moment WriteValue is called (no rollback), a    *)
(* batch is one message, only sections that commit are in scope.                          *)
EXTENDS Naturals, Sequences, FiniteSets

CONSTANT Nodes          \* node ids; 0 is the environment (feeder of Go channels)

NoMsg == [s |-> 0, q |-> 0]

LInit(fl) == [fl |-> fl,
              q |-> [s \in Nodes |-> [r \in Nodes |-> <<>>]],
              ob |-> [p \in Nodes |-> <<>>],
              inf |-> [p \in Nodes |-> <<>>],
              red |-> [p \in Nodes |-> <<>>],
              cur |-> [p \in Nodes |-> <<>>],
              lastd |-> [s \in Nodes |-> [r \in Nodes |-> 0]],
              pd |-> {},
              abm |-> {},
              bad |-> ""]

Bad(L, why) == IF L.bad = "" THEN [L EXCEPT !.bad = why] ELSE L

RECURSIVE SumLen(_)
SumLen(bs) == IF bs = <<>> THEN 0 ELSE Len(Head(bs).ms) + SumLen(Tail(bs))

RECURSIVE SumOver(_, _, _)
SumOver(L, r, S) == IF S = {} THEN 0
                    ELSE LET s == CHOOSE x \in S : TRUE IN SumLen(L.q[s][r]) + SumOver(L, r, S \ {s})

(* number of messages actually pending for r: committed and not yet obtained by the      *)
(* section in flight                                                                      *)
Pending(L, r) == Len(L.red[r]) + Len(L.cur[r]) + SumOver(L, r, Nodes)

SelectTo(ws, to) == SelectSeq(ws, LAMBDA w : w.to = to)
MsgsOf(ws) == [i \in 1..Len(ws) |-> ws[i].m]

InBatches(bs, m) == \E i \in 1..Len(bs) : \E j \in 1..Len(bs[i].ms) : bs[i].ms[j] = m

RemoveMsgBatch(bs, m) == SelectSeq(bs, LAMBDA b : b.ms # <<m>>)
MarkOk(bs, m) == [i \in 1..Len(bs) |-> IF bs[i].ms = <<m>> THEN [bs[i] EXCEPT !.st = "ok"] ELSE bs[i]]

(* --- one event ------------------------------------------------------------------------ *)

WriteStart(L, p, to, m) ==
    IF L.fl = "relaxed"
    THEN [L EXCEPT !.q[p][to] = Append(@, [ms |-> <<m>>, st |-> "prov"])]
    ELSE L

WriteOk(L, p, to, m) ==
    IF L.fl = "relaxed"
    THEN [L EXCEPT !.q[p][to] = MarkOk(@, m), !.pd = @ \ {m}]
    ELSE [L EXCEPT !.ob[p] = Append(@, [to |-> to, m |-> m])]

WriteFail(L, p, to, m) ==
    IF L.fl = "relaxed"
    THEN IF m \in L.pd THEN Bad(L, "aborted-delivered")
         ELSE [L EXCEPT !.q[p][to] = RemoveMsgBatch(@, m), !.abm = @ \cup {m}]
    ELSE [L EXCEPT !.abm = @ \cup {m}]

(* tcp: the writes of the section to one destination become one batch. chan: several     *)
(* OutputChans may feed one Go channel, whose values other writers can interleave, so only *)
(* per-link order is claimed: every value is a batch of its own.                           *)
Singles(ms) == [i \in 1..Len(ms) |-> [ms |-> <<ms[i]>>, st |-> "ok"]]
CommitStart(L, p) ==
    LET pub == [to \in Nodes |->
                  LET b == MsgsOf(SelectTo(L.ob[p], to)) IN
                  IF b = <<>> THEN L.q[p][to]
                  ELSE IF L.fl = "chan" THEN L.q[p][to] \o Singles(b)
                  ELSE Append(L.q[p][to], [ms |-> b, st |-> "ok"])]
    IN [L EXCEPT !.q[p] = pub, !.ob[p] = <<>>, !.inf[p] = <<>>]

AbortCall(L, p) ==
    [L EXCEPT !.ob[p] = <<>>, !.red[p] = L.inf[p] \o @, !.inf[p] = <<>>,
              !.abm = @ \cup {L.ob[p][i].m : i \in 1..Len(L.ob[p])}]

Classify(L, p, m) ==
    IF m.s \notin Nodes THEN "invented"
    ELSE IF m \in L.abm \/ \E i \in 1..Len(L.ob[m.s]) : L.ob[m.s][i].m = m THEN "aborted-delivered"
    ELSE IF m.q <= L.lastd[m.s][p] THEN "dup-or-reorder"
    ELSE IF InBatches(L.q[m.s][p], m) THEN "skip"
    ELSE "invented"

ReadOk(L, p, m) ==
    LET got(L1) == [L1 EXCEPT !.inf[p] = Append(@, m),
                              !.lastd[m.s][p] = IF m.q > @ THEN m.q ELSE @]
    IN
    IF L.red[p] # <<>>
    THEN IF Head(L.red[p]) = m THEN [L EXCEPT !.red[p] = Tail(@), !.inf[p] = Append(@, m)]
         ELSE Bad(L, "redeliver")
    ELSE IF L.cur[p] # <<>>
    THEN IF Head(L.cur[p]) = m THEN got([L EXCEPT !.cur[p] = Tail(@)])
         ELSE Bad(L, "contig")
    ELSE IF m.s \in Nodes /\ L.q[m.s][p] # <<>> /\ Head(Head(L.q[m.s][p]).ms) = m
    THEN LET b == Head(L.q[m.s][p]) IN
         got([L EXCEPT !.q[m.s][p] = Tail(@), !.cur[p] = Tail(b.ms),
                       !.pd = IF b.st = "prov" THEN @ \cup {m} ELSE @])
    ELSE Bad(L, Classify(L, p, m))

LenRead(L, p, n) == IF n <= Pending(L, p) THEN L ELSE Bad(L, "len")

Feed(L, p, m) == [L EXCEPT !.q[0][p] = Append(@, [ms |-> <<m>>, st |-> "ok"])]

Quiesce(L, p) == IF Pending(L, p) = 0 /\ L.inf[p] = <<>> THEN L ELSE Bad(L, "lost")

LStep(L, e) ==
    CASE e.e = "ws" -> WriteStart(L, e.p, e.to, e.m)
      [] e.e = "wk" -> WriteOk(L, e.p, e.to, e.m)
      [] e.e = "wf" -> WriteFail(L, e.p, e.to, e.m)
      [] e.e = "rd" -> ReadOk(L, e.p, e.m)
      [] e.e = "ln" -> LenRead(L, e.p, e.n)
      [] e.e = "cs" -> CommitStart(L, e.p)
      [] e.e = "ab" -> AbortCall(L, e.p)
      [] e.e = "fd" -> Feed(L, e.p, e.m)
      [] e.e = "qs" -> Quiesce(L, e.p)
      [] e.e = "px" -> Bad(L, "crash")
      [] OTHER -> L          \* rt, ce, pc, informational events

(* --- the property, one invariant per clause of the statement --------------------------- *)
OkFIFO(L)         == L.bad \notin {"dup-or-reorder", "skip", "invented"}
OkContiguous(L)   == L.bad # "contig"
OkRedeliver(L)    == L.bad # "redeliver"
OkAllOrNothing(L) == L.bad # "aborted-delivered"
OkLen(L)          == L.bad # "len"
OkDrained(L)      == L.bad # "lost"
OkNoCrash(L)      == L.bad # "crash"    \* time-outs and full buffers only abort the section in flight
=============================================================================
