CONSTANTS
  NS = 2
  Cap = 1
  SockCap = 9
  MaxSeq = 3
  MaxRd = 2
  MaxConn = 2
  Mode = "free"
  Redial = "immediate"
  Variant = "code"
INIT Init
NEXT Next
VIEW MView
INVARIANTS FIFO RedeliverFirst AllOrNothing LenBound Contiguous NoLossAtRest ChanBound
CHECK_DEADLOCK FALSE
