CONSTANTS
  NS = 2
  Cap = 1
  MaxSeq = 3
  MaxMsg = 2
  MaxRd = 2
  MaxConn = 2
  Mode = "gen"
  Variant = "code"
  CommitTO = FALSE
INIT Init
NEXT Next
VIEW MView
INVARIANTS FIFO Contiguous RedeliverFirst AllOrNothing LenBound NoLossAtRest ChanBound SendqParked
CHECK_DEADLOCK FALSE
