--------------------------- MODULE RelaxedMailbox ---------------------------
(* M-spec of distsys/resources/relaxedmailboxes.go: a write goes straight to the socket  *)
(* (no begin/precommit/commit handshake, no rollback after a successful write); the       *)
(* receiver's connection handler decodes one value at a time and pushes it into the       *)
(* bounded msgChannel. Only sections that commit are in scope: a section is one write      *)
(* followed by Commit, or a write that fails (dial failure, write time-out) and aborts.    *)
(*                                                                                        *)
(* The socket buffers of a connection hold at most SockCap messages; a write into a full  *)
(* socket times out (leaving a truncated message behind), the sender drops the connection  *)
(* and re-dials on its next write.                                                         *)
(*   Redial = "immediate"  pinned tree: the old connection is closed at once. Its handler  *)
(*                         may still hold undelivered messages while the handler of the   *)
(*                         new connection pushes later ones: TLC finds the reordering      *)
(*                         (DESIGN section 8 #15; reproduced on the real code).            *)
(*   Redial = "drain"      patches/C06-fix-relaxed-redial-order.diff: the sender half-     *)
(*                         closes and does not dial again before the receiver has consumed *)
(*                         the old connection (its handler returned); meanwhile writes     *)
(*                         abort the section.                                              *)
(* Mode "free"/"gen" and last/out as in TCPMailbox.tla.                                     *)
EXTENDS Naturals, Sequences, FiniteSets, TLC

CONSTANTS NS, Cap, SockCap, MaxSeq, MaxRd, MaxConn, Mode, Redial, Variant

Senders == 1..NS
R == NS + 1
MNodes == 0..R
Conns == Senders \X (1..MaxConn)

LK == INSTANCE Links WITH Nodes <- MNodes

NoM == [s |-> 0, q |-> 0]
Fr(t, m) == [t |-> t, m |-> m]

VARIABLES sst, conn, nconn, seq, drain,            \* senders
          wire, closed, hst, hbuf,                 \* connections / handlers
          ch, sendq, listening,
          backlog, inprog, rst, nrd,               \* receiver
          mon, last, out

svars == <<sst, conn, nconn, seq, drain>>
cvars == <<wire, closed, hst, hbuf>>
rvars == <<backlog, inprog, rst, nrd>>
vars == <<svars, cvars, ch, sendq, listening, rvars, mon, last, out>>

MView == <<svars, cvars, ch, sendq, listening, rvars, last, out,
           [mon EXCEPT !.lastd = 0, !.abm = 0]>>

Gen == Mode = "gen"
SetLO(c, o) == /\ last' = IF Gen THEN c ELSE ""
               /\ out' = IF Gen THEN o ELSE ""
KeepO == /\ last' = IF Gen THEN "tau" ELSE ""
         /\ UNCHANGED out

Ev(e, p) == [e |-> e, p |-> p]
EvW(e, p, m) == [e |-> e, p |-> p, to |-> R, m |-> m]
EvR(p, m) == [e |-> "rd", p |-> p, m |-> m]
EvL(p, n) == [e |-> "ln", p |-> p, n |-> n]
Mon1(e) == mon' = LK!LStep(mon, e)
Mon2(e1, e2) == mon' = LK!LStep(LK!LStep(mon, e1), e2)
Mon3(e1, e2, e3) == mon' = LK!LStep(LK!LStep(LK!LStep(mon, e1), e2), e3)

Init ==
    /\ sst = [s \in Senders |-> "idle"] /\ conn = [s \in Senders |-> 0]
    /\ nconn = [s \in Senders |-> 0] /\ seq = [s \in Senders |-> 0]
    /\ drain = [s \in Senders |-> 0]
    /\ wire = [c \in Conns |-> <<>>] /\ closed = [c \in Conns |-> FALSE]
    /\ hst = [c \in Conns |-> "none"] /\ hbuf = [c \in Conns |-> NoM]
    /\ ch = <<>> /\ sendq = <<>> /\ listening = (Mode = "free")
    /\ backlog = <<>> /\ inprog = <<>> /\ rst = "idle" /\ nrd = 0
    /\ mon = LK!LInit("relaxed") /\ last = (IF Gen THEN "init" ELSE "") /\ out = ""

HandlerCanStep(c) == hst[c] = "run" /\ (wire[c] # <<>> \/ closed[c])
TauEnabled == \E c \in Conns : HandlerCanStep(c)
CmdOK == Mode = "free" \/ ~TauEnabled

(* ---------------------------------------------------------------------------- senders *)
WriteFails(s, m) ==
    /\ Mon3(EvW("ws", s, m), EvW("wf", s, m), Ev("ab", s))
    /\ SetLO("W" \o ToString(s), "fail")
    /\ UNCHANGED <<sst, ch, sendq, listening, rvars, hst, hbuf>>

SWrite(s) ==
    /\ CmdOK /\ sst[s] = "idle" /\ seq[s] < MaxSeq
    /\ LET m == [s |-> s, q |-> seq[s] + 1] IN
       /\ seq' = [seq EXCEPT ![s] = @ + 1]
       /\ IF conn[s] = 0 /\ drain[s] # 0 /\ hst[<<s, drain[s]>>] # "dead"
          THEN \* the receiver has not consumed the old connection yet: the write aborts the section
               /\ WriteFails(s, m) /\ UNCHANGED <<conn, nconn, drain, wire, closed>>
          ELSE IF conn[s] = 0 /\ ~listening
          THEN /\ WriteFails(s, m) /\ drain' = [drain EXCEPT ![s] = 0]
               /\ UNCHANGED <<conn, nconn, wire, closed>>
          ELSE /\ (conn[s] # 0 \/ nconn[s] < MaxConn)
               /\ LET k == IF conn[s] = 0 THEN nconn[s] + 1 ELSE conn[s]
                      c == <<s, k>>
                      fresh == conn[s] = 0
                  IN IF fresh \/ Len(wire[c]) < SockCap
                     THEN \* the value fits into the socket buffers: WriteValue returns nil
                          /\ conn' = [conn EXCEPT ![s] = k]
                          /\ nconn' = [nconn EXCEPT ![s] = IF fresh THEN k ELSE @]
                          /\ hst' = [hst EXCEPT ![c] = IF fresh THEN "run" ELSE @]
                          /\ wire' = [wire EXCEPT ![c] = Append(@, Fr("msg", m))]
                          /\ drain' = [drain EXCEPT ![s] = IF fresh THEN 0 ELSE @]
                          /\ sst' = [sst EXCEPT ![s] = "sent"]
                          /\ Mon2(EvW("ws", s, m), EvW("wk", s, m))
                          /\ SetLO("W" \o ToString(s), "ok")
                          /\ UNCHANGED <<closed, hbuf, ch, sendq, listening, rvars>>
                     ELSE \* full: the write times out part-way, the connection is given up
                          /\ wire' = [wire EXCEPT ![c] = Append(@, Fr("junk", NoM))]
                          /\ closed' = [closed EXCEPT ![c] = TRUE]
                          /\ conn' = [conn EXCEPT ![s] = 0]
                          /\ drain' = [drain EXCEPT ![s] = IF Redial = "drain" THEN k ELSE 0]
                          /\ WriteFails(s, m) /\ UNCHANGED nconn

SCommit(s) ==
    /\ CmdOK /\ sst[s] = "sent"
    /\ sst' = [sst EXCEPT ![s] = "idle"]
    /\ Mon2(Ev("cs", s), Ev("ce", s)) /\ SetLO("C" \o ToString(s), "c")
    /\ UNCHANGED <<conn, nconn, seq, drain, cvars, ch, sendq, listening, rvars>>

(* --------------------------------------------------------------------------- handlers *)
HStep(c) ==
    /\ hst[c] = "run" /\ wire[c] # <<>>
    /\ LET f == Head(wire[c]) IN
       /\ wire' = [wire EXCEPT ![c] = Tail(@)]
       /\ IF f.t = "junk"
          THEN /\ hst' = [hst EXCEPT ![c] = "dead"] /\ UNCHANGED <<ch, sendq, hbuf>>
          ELSE IF Len(ch) < Cap
          THEN /\ ch' = Append(ch, f.m) /\ UNCHANGED <<sendq, hst, hbuf>>
          ELSE /\ sendq' = Append(sendq, c) /\ hst' = [hst EXCEPT ![c] = "push"]
               /\ hbuf' = [hbuf EXCEPT ![c] = f.m] /\ UNCHANGED ch
    /\ KeepO
    /\ UNCHANGED <<svars, closed, listening, rvars, mon>>

HEOF(c) ==
    /\ hst[c] = "run" /\ wire[c] = <<>> /\ closed[c]
    /\ hst' = [hst EXCEPT ![c] = "dead"]
    /\ KeepO
    /\ UNCHANGED <<svars, wire, closed, hbuf, ch, sendq, listening, rvars, mon>>

(* --------------------------------------------------------------------------- receiver *)
PopCh ==
    IF sendq = <<>>
    THEN /\ ch' = Tail(ch) /\ UNCHANGED <<sendq, hst, hbuf>>
    ELSE LET c == Head(sendq) IN
         /\ ch' = Append(Tail(ch), hbuf[c])
         /\ sendq' = Tail(sendq)
         /\ hst' = [hst EXCEPT ![c] = "run"]
         /\ hbuf' = [hbuf EXCEPT ![c] = NoM]

AbortedBacklog == CASE Variant = "abortappend" -> backlog \o inprog
                    [] Variant = "abortlose" -> backlog
                    [] OTHER -> inprog \o backlog

RRead ==
    /\ CmdOK /\ listening /\ nrd < MaxRd
    /\ IF backlog # <<>>
       THEN /\ backlog' = Tail(backlog) /\ inprog' = Append(inprog, Head(backlog))
            /\ rst' = "insec" /\ nrd' = nrd + 1
            /\ Mon1(EvR(R, Head(backlog)))
            /\ SetLO("RD", ToString(Head(backlog).s) \o "." \o ToString(Head(backlog).q))
            /\ UNCHANGED <<ch, sendq, hst, hbuf>>
       ELSE IF ch # <<>>
       THEN /\ PopCh
            /\ inprog' = Append(inprog, Head(ch)) /\ UNCHANGED backlog
            /\ rst' = "insec" /\ nrd' = nrd + 1
            /\ Mon1(EvR(R, Head(ch)))
            /\ SetLO("RD", ToString(Head(ch).s) \o "." \o ToString(Head(ch).q))
       ELSE /\ backlog' = AbortedBacklog /\ inprog' = <<>> /\ rst' = "idle" /\ nrd' = 0
            /\ Mon2(Ev("rt", R), Ev("ab", R))
            /\ SetLO("RD", "to")
            /\ UNCHANGED <<ch, sendq, hst, hbuf>>
    /\ UNCHANGED <<svars, wire, closed, listening>>

RLen ==
    /\ CmdOK /\ listening
    /\ rst' = "insec"
    /\ LET pull == backlog = <<>> /\ ch # <<>>
           nb == IF pull THEN <<Head(ch)>> ELSE backlog
       IN /\ backlog' = nb
          /\ IF pull THEN PopCh ELSE UNCHANGED <<ch, sendq, hst, hbuf>>
          /\ Mon1(EvL(R, Len(nb)))
          /\ SetLO("LN", ToString(Len(nb)))
    /\ UNCHANGED <<svars, wire, closed, listening, inprog, nrd>>

RAbort ==
    /\ CmdOK /\ rst = "insec"
    /\ backlog' = AbortedBacklog /\ inprog' = <<>> /\ rst' = "idle" /\ nrd' = 0
    /\ Mon1(Ev("ab", R)) /\ SetLO("RA", "a")
    /\ UNCHANGED <<svars, cvars, ch, sendq, listening>>

RCommit ==
    /\ CmdOK /\ rst = "insec"
    /\ inprog' = <<>> /\ rst' = "idle" /\ nrd' = 0
    /\ Mon2(Ev("cs", R), Ev("ce", R)) /\ SetLO("RC", "c")
    /\ UNCHANGED <<svars, cvars, ch, sendq, listening, backlog>>

Listen ==
    /\ CmdOK /\ ~listening /\ listening' = TRUE
    /\ SetLO("L", "0")
    /\ UNCHANGED <<svars, cvars, ch, sendq, rvars, mon>>

Cmd == \/ \E s \in Senders : SWrite(s) \/ SCommit(s)
       \/ RRead \/ RLen \/ RAbort \/ RCommit \/ Listen
Tau == \E c \in Conns : HStep(c) \/ HEOF(c)
Next == Cmd \/ Tau
Spec == Init /\ [][Next]_vars

FIFO         == LK!OkFIFO(mon)
RedeliverFirst == LK!OkRedeliver(mon)
AllOrNothing == LK!OkAllOrNothing(mon)
LenBound     == LK!OkLen(mon)
Contiguous   == LK!OkContiguous(mon)

AtRest == /\ \A s \in Senders : sst[s] = "idle"
          /\ \A c \in Conns : wire[c] = <<>> \/ hst[c] # "run"
          /\ sendq = <<>> /\ ch = <<>> /\ backlog = <<>> /\ inprog = <<>>
NoLossAtRest == AtRest => LK!Pending(mon, R) = 0
ChanBound == Len(ch) <= Cap
=============================================================================
