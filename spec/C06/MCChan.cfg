CONSTANTS
  NS = 2
  Cap = 2
  MaxSeq = 3
  MaxMsg = 2
  MaxRd = 2
  Mode = "free"
  Variant = "code"
INIT Init
NEXT Next
VIEW MView
INVARIANTS FIFO RedeliverFirst AllOrNothing Contiguous NoLossAtRest ChanBound
CHECK_DEADLOCK FALSE
