CONSTANTS
  Progs <- MCProgs
  Cases <- MCCases
INIT Init
NEXT Next
INVARIANTS InRange NoPanic ExactCover LeafReach
CHECK_DEADLOCK FALSE
