------------------------------ MODULE FairnessProps ------------------------------
(* P-level statement of C10 over an observed history of attempts.                 *)
(* A program is a function from paths (tuples of digits) to choice points         *)
(* [id, c]; a path outside its domain is a leaf (the attempt ends there).         *)
(* An attempt record is [pc, p, steps] : label, program index, and the sequence   *)
(* of consulted choice points with the digit returned: [id, c, r].               *)
EXTENDS Naturals, Sequences, FiniteSets

Digits(att) == [i \in 1..Len(att.steps) |-> att.steps[i].r]
SigOf(att)  == [i \in 1..Len(att.steps) |-> <<att.steps[i].id, att.steps[i].c>>]

RECURSIVE ProdSeq(_)
ProdSeq(s) == IF s = <<>> THEN 1 ELSE Head(s)[2] * ProdSeq(Tail(s))

(* every digit returned is within its bound *)
InRangeAtt(att) == \A i \in 1..Len(att.steps) : att.steps[i].r < att.steps[i].c

(* leaves and shape predicates of a program *)
Front(s) == SubSeq(s, 1, Len(s) - 1)
Leaves(P) == {p \in { Append(q, d) : q \in DOMAIN P, d \in 0..3 } \cup {<<>>} :
                /\ p \notin DOMAIN P
                /\ p # <<>> => (Front(p) \in DOMAIN P /\ p[Len(p)] < P[Front(p)].c)
                /\ p = <<>> => DOMAIN P = {}}
(* uniform: every attempt consults the same sequence of (id, bound) *)
SigOfPath(P, p) == [i \in 1..Len(p) |-> <<P[SubSeq(p, 1, i - 1)].id, P[SubSeq(p, 1, i - 1)].c>>]
Uniform(P) == \A p, q \in Leaves(P) : SigOfPath(P, p) = SigOfPath(P, q)
(* id-consistent: at equal depth every choice point has the same id and bound *)
IdConsistent(P) == \A p, q \in DOMAIN P : Len(p) = Len(q) => P[p] = P[q]
MaxDepth(P) == IF DOMAIN P = {} THEN 0 ELSE 1 + (CHOOSE n \in {Len(p) : p \in DOMAIN P} : \A q \in DOMAIN P : Len(q) <= n)
DepthBound(P, n) == (CHOOSE x \in DOMAIN P : Len(x) = n - 1 ) 
ProdMax(P) == LET RECURSIVE Pm(_)
                  Pm(n) == IF n = 0 THEN 1 ELSE P[DepthBound(P, n)].c * Pm(n - 1)
              IN Pm(MaxDepth(P))

(* The hypothesis "the section consults the same choice points on each attempt" is read  *)
(* as: every attempt since the label was entered ran the same uniform program to a leaf,  *)
(* so the properties are evaluated inside the maximal same-program prefix of a run h      *)
(* (run = the attempts of one uninterrupted stay at one label).                           *)
RECURSIVE PrefixLen(_, _)
PrefixLen(h, n) == IF n < Len(h) /\ h[n + 1].p = h[1].p /\ h[n + 1].pc = h[1].pc THEN PrefixLen(h, n + 1) ELSE n

(* ExactCover: any two attempts less than W = (product of the bounds) apart differ, i.e.  *)
(* every window of W consecutive attempts contains every combination exactly once.        *)
ExactCoverRun(h, UTab) ==
    Len(h) >= 2 =>
        LET n == PrefixLen(h, 1)
            W == ProdSeq(SigOf(h[1])) IN
        (/\ \A i \in 1..n : SigOf(h[i]) = SigOf(h[1])
         /\ UTab[h[1].p])
        => \A i, j \in 1..n : (i < j /\ j - i < W) => Digits(h[i]) # Digits(h[j])

(* Bounded starvation, also after changes of bounds / identifiers between attempts: in    *)
(* the current segment (maximal suffix of attempts of one id-consistent program) every    *)
(* window of K attempts reaches every leaf. K allows for digits left behind by the        *)
(* programs run earlier at this label: K == 2 * ProdMax(current) * max ProdMax(earlier) + 1. *)
RECURSIVE SegStart(_, _)
SegStart(h, n) == IF n > 1 /\ h[n - 1].p = h[n].p /\ h[n - 1].pc = h[n].pc THEN SegStart(h, n - 1) ELSE n
MaxOf(S) == CHOOSE m \in S : \A x \in S : x <= m
LeafReachRun(h, IdcT, PmT, PmAnyT, LeafT) ==
    Len(h) >= 3 =>
        LET e == Len(h)
            s == SegStart(h, e)
            p == h[e].p IN
        IdcT[p] =>
            LET stale == MaxOf({1} \cup {PmAnyT[h[i].p] : i \in 1..(s - 1)})
                K == 2 * PmT[p] * stale + 1 IN
            (e - s + 1 >= K) => LeafT[p] \subseteq {Digits(h[b]) : b \in (e - K + 1)..e}

(* the same without the id-consistency hypothesis (fails on the pinned design: DESIGN 8 #14) *)
MaxC(P, n) == LET S == {P[x].c : x \in {y \in DOMAIN P : Len(y) = n - 1}} IN CHOOSE m \in S : \A z \in S : z <= m
ProdMaxAny(P) == LET RECURSIVE Pm(_)
                     Pm(n) == IF n = 0 THEN 1 ELSE MaxC(P, n) * Pm(n - 1)
                 IN Pm(MaxDepth(P))
LeafReachAnyRun(h, KAnyTab, LeafTab) ==
    Len(h) >= 3 =>
        LET n == PrefixLen(h, 1)
            p == h[1].p
            K == KAnyTab[p] IN
        \A a \in 1..n : a + K - 1 <= n => LeafTab[p] \subseteq {Digits(h[b]) : b \in a..(a + K - 1)}

(* constant tables over a sequence of programs (TLC evaluates constant definitions once) *)
UniformTab(Progs) == [i \in 1..Len(Progs) |-> Uniform(Progs[i])]
IdcTab(Progs)     == [i \in 1..Len(Progs) |-> IdConsistent(Progs[i])]
PmTab(Progs)      == [i \in 1..Len(Progs) |-> IF IdConsistent(Progs[i]) THEN ProdMax(Progs[i]) ELSE 0]
PmAnyTab(Progs)   == [i \in 1..Len(Progs) |-> ProdMaxAny(Progs[i])]
KAnyTab(Progs)    == [i \in 1..Len(Progs) |-> 2 * ProdMaxAny(Progs[i]) + 1]
LeafTab(Progs)    == [i \in 1..Len(Progs) |-> Leaves(Progs[i])]
=============================================================================
