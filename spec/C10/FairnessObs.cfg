INIT OInit
NEXT ONext0
INVARIANTS InRange ExactCover LeafReach
CHECK_DEADLOCK FALSE
