CONSTANTS
  Progs <- MCProgs
  Cases <- MCCases
INIT TInit
NEXT TNext0
INVARIANTS NoPanic
CHECK_DEADLOCK FALSE
