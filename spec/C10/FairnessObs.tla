------------------------------ MODULE FairnessObs ------------------------------
(* P-level trace specification: folds the events recorded from the real oracle into *)
(* the history of attempts and evaluates C10's properties on it. Independent of the *)
(* M-spec, so the verdict does not depend on how the oracle is implemented.         *)
EXTENDS Naturals, Sequences, FiniteSets, TLC, Json, FairnessCases

Trace == ndJsonDeserialize("trace.ndjson")

VARIABLES l, run, steps, curpc, curp, open
ovars == <<l, run, steps, curpc, curp, open>>

OInit == l = 1 /\ run = <<>> /\ steps = <<>> /\ curpc = "" /\ curp = 0 /\ open = FALSE

Ev(e) == l <= Len(Trace) /\ Trace[l].e = e /\ l' = l + 1

OCase  == Ev("case") /\ run' = <<>> /\ steps' = <<>> /\ curpc' = "" /\ curp' = 0 /\ open' = FALSE
OBegin == /\ Ev("begin") /\ ~open
          /\ run' = IF Trace[l].pc # curpc THEN <<>> ELSE run
          /\ curpc' = Trace[l].pc /\ curp' = Trace[l].p /\ steps' = <<>> /\ open' = TRUE
ONext  == /\ Ev("next") /\ open
          /\ steps' = Append(steps, [id |-> Trace[l].id, c |-> Trace[l].c, r |-> Trace[l].r])
          /\ UNCHANGED <<run, curpc, curp, open>>
OEnd   == /\ Ev("end") /\ open
          /\ run' = Append(run, [pc |-> curpc, p |-> curp, steps |-> steps])
          /\ open' = FALSE /\ UNCHANGED <<steps, curpc, curp>>
ONext0 == OCase \/ OBegin \/ ONext \/ OEnd
OSpec  == OInit /\ [][ONext0]_ovars

InRange    == \A i \in 1..Len(steps) : steps[i].r < steps[i].c
TU == UniformTab(MCProgs)
TI == IdcTab(MCProgs)
TP == PmTab(MCProgs)
TPA == PmAnyTab(MCProgs)
TL == LeafTab(MCProgs)
ExactCover == ExactCoverRun(run, TU)
LeafReach  == LeafReachRun(run, TI, TP, TPA, TL)
(* the attempt followed its program: the consulted choice points are those of MCProgs[p] *)
FollowsProgram == \A i \in 1..Len(steps) :
    LET path == [j \in 1..(i - 1) |-> steps[j].r] IN
    path \in DOMAIN MCProgs[curp] /\ MCProgs[curp][path] = [id |-> steps[i].id, c |-> steps[i].c]
=============================================================================
