------------------------------ MODULE Fairness ------------------------------
(* M-spec: transcription of distsys/fairness.go (roundRobinFairnessCounter) driven by *)
(* a case = sequence of [pc, p] (label and program index of attempt k).               *)
EXTENDS Naturals, Sequences, FiniteSets, FairnessProps

CONSTANTS Progs,   \* sequence of programs
          Cases    \* set of cases; a case is a sequence of [pc |-> label, p |-> index into Progs]

VARIABLES cs, k, phase, path, cpc, stack, idx, run, steps
vars == <<cs, k, phase, path, cpc, stack, idx, run, steps>>

RECURSIVE IncrFrom(_, _, _)
IncrFrom(s, i, carry) ==
    IF i = 0 THEN s
    ELSE LET cnt == s[i].count + carry
             c   == s[i].ceiling
         IN IncrFrom([s EXCEPT ![i].count = IF cnt >= c THEN cnt % c ELSE cnt], i - 1,
                     IF cnt >= c THEN cnt \div c ELSE 0)
Incr(s) == IncrFrom(s, Len(s), 1)

Init == /\ cs \in Cases
        /\ k = 1 /\ phase = "begin" /\ path = <<>>
        /\ cpc = "" /\ stack = <<>> /\ idx = 0
        /\ run = <<>> /\ steps = <<>>

(* BeginCriticalSection(pc) *)
Begin == /\ phase = "begin" /\ k <= Len(cs)
         /\ idx' = 0
         /\ cpc' = cs[k].pc
         /\ stack' = IF cs[k].pc # cpc THEN <<>> ELSE Incr(stack)
         /\ run' = IF cs[k].pc # cpc THEN <<>> ELSE run
         /\ phase' = "body" /\ path' = <<>> /\ steps' = <<>>
         /\ UNCHANGED <<cs, k>>

(* NextFairnessCounter(id, ceiling) with the pushed digit d (the code draws it at random) *)
NextCall(id, c, d) ==
    LET st1 == IF idx < Len(stack) /\ (stack[idx + 1].id # id \/ stack[idx + 1].ceiling # c)
               THEN SubSeq(stack, 1, idx) ELSE stack
        st2 == IF idx = Len(st1) THEN Append(st1, [id |-> id, count |-> d, ceiling |-> c]) ELSE st1
    IN /\ idx <= Len(stack)
       /\ stack' = st2
       /\ idx' = idx + 1
       /\ path' = Append(path, st2[idx + 1].count)
       /\ steps' = Append(steps, [id |-> id, c |-> c, r |-> st2[idx + 1].count])

Next1 == /\ phase = "body" /\ path \in DOMAIN Progs[cs[k].p]
         /\ LET cp == Progs[cs[k].p][path] IN \E d \in 0..(cp.c - 1) : NextCall(cp.id, cp.c, d)
         /\ UNCHANGED <<cs, k, phase, cpc, run>>

End == /\ phase = "body" /\ path \notin DOMAIN Progs[cs[k].p]
       /\ run' = Append(run, [pc |-> cs[k].pc, p |-> cs[k].p, steps |-> steps])
       /\ k' = k + 1 /\ phase' = "begin"
       /\ UNCHANGED <<cs, path, cpc, stack, idx, steps>>

Finished == phase = "begin" /\ k > Len(cs) /\ UNCHANGED vars

Next == Begin \/ Next1 \/ End \/ Finished
Spec == Init /\ [][Next]_vars

(* properties (P-level operators applied to the model's own history) *)
InRange    == \A i \in 1..Len(steps) : steps[i].r < steps[i].c
TU == UniformTab(Progs)
TI == IdcTab(Progs)
TP == PmTab(Progs)
TPA == PmAnyTab(Progs)
TA == KAnyTab(Progs)
TL == LeafTab(Progs)
ExactCover == ExactCoverRun(run, TU)
LeafReach  == LeafReachRun(run, TI, TP, TPA, TL)
LeafReachAny == LeafReachAnyRun(run, TA, TL)
(* the code's own consistency panics never fire *)
NoPanic    == idx <= Len(stack) /\ \A i \in 1..Len(stack) : stack[i].count < stack[i].ceiling
=============================================================================
