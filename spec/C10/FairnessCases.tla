------------------------------ MODULE FairnessCases ------------------------------
(* Finite family of programs and cases shared by the exhaustive model, the exported *)
(* test cases and the trace specifications.                                         *)
EXTENDS Naturals, Sequences, FiniteSets, TLC, FairnessProps

cp(id, c) == [id |-> id, c |-> c]
Single(id, c) == (<<>> :> cp(id, c))
Leaf0 == [x \in {} |-> cp("a", 1)]

Cov(l) == (<<>> :> cp(l \o ".0", 2)) @@ [p \in {<<0>>, <<1>>} |-> cp(l \o ".1", 2)]

MCProgs == <<
  (* 1 *) Single("a", 2),
  (* 2 *) Single("a", 3),
  (* 3 *) (<<>> :> cp("a", 2)) @@ [p \in {<<0>>, <<1>>} |-> cp("b", 3)],
  (* 4 *) (<<>> :> cp("a", 2)) @@ [p \in {<<0>>, <<1>>} |-> cp("b", 2)]
              @@ [p \in {<<0,0>>, <<0,1>>, <<1,0>>, <<1,1>>} |-> cp("c", 2)],
  (* 5 *) (<<>> :> cp("a", 2)) @@ (<<1>> :> cp("b", 2)),
  (* 6 *) (<<>> :> cp("a", 2)) @@ [p \in {<<0>>, <<1>>} |-> cp("b", 2)]
              @@ (<<0,0>> :> cp("c", 2)) @@ [p \in {<<0,0,0>>, <<0,0,1>>} |-> cp("d", 2)],
  (* 7 *) (<<>> :> cp("a", 3)) @@ (<<2>> :> cp("b", 2)),
  (* 8 *) (<<>> :> cp("a", 2)) @@ (<<0>> :> cp("b", 2)) @@ (<<1>> :> cp("c", 3)),
  (* 9 *) (<<>> :> cp("a", 2)) @@ [p \in {<<0>>, <<1>>} |-> cp("b", 2)],
  (* 10 *) (<<>> :> cp("a", 1)) @@ (<<0>> :> cp("b", 2)),
  (* 11 *) Leaf0,
  (* 12 *) (<<>> :> cp("x", 2)) @@ [p \in {<<0>>, <<1>>} |-> cp("b", 3)],
  (* 13 *) (<<>> :> cp("a", 3)) @@ [p \in {<<0>>, <<1>>, <<2>>} |-> cp("b", 3)],
  \* shapes of the generated NonDetExploration archetypes (ids as the code generator emits them)
  (* 14 *) Cov("ACoverage.l1"), (* 15 *) Cov("ACoverage.l2"), (* 16 *) Cov("ACoverage.l3"), (* 17 *) Cov("ACoverage.l4"),
  (* 18 *) (<<>> :> cp("ACoincidence.lbl.0", 2)) @@ [p \in {<<0>>, <<1>>} |-> cp("ACoincidence.lbl.1", 2)]
              @@ (<<0,0>> :> cp("ACoincidence.lbl.2", 2)) @@ [p \in {<<0,0,0>>, <<0,0,1>>} |-> cp("ACoincidence.lbl.3", 2)],
  (* 19 *) Single("AComplex.lbl1.0", 2)
>>

Rep(pc, p, n) == [i \in 1..n |-> [pc |-> pc, p |-> p]]
W(p) == ProdMax(MCProgs[p])

MCCaseSeq ==
    \* every program retried at one label for more than two full periods
    [p \in 1..13 |-> Rep("l1", p, 2 * W(p) + 3)]
    \o
    \* label changes: stay k attempts, leave, come back
    << Rep("l1", 3, 2) \o Rep("l2", 4, 3) \o Rep("l1", 3, 7),
       Rep("l1", 3, 5) \o Rep("l2", 3, 7),
       Rep("l1", 6, 3) \o Rep("l2", 1, 1) \o Rep("l1", 6, 17),
       Rep("l1", 1, 1) \o Rep("l2", 1, 1) \o Rep("l1", 1, 1) \o Rep("l2", 1, 3),
    \* bound / identifier changes between attempts of one label
       Rep("l1", 3, 1) \o Rep("l1", 9, 5) \o Rep("l1", 3, 7),
       Rep("l1", 3, 2) \o Rep("l1", 9, 5) \o Rep("l1", 3, 7),
       Rep("l1", 3, 3) \o Rep("l1", 9, 1) \o Rep("l1", 3, 7),
       Rep("l1", 13, 4) \o Rep("l1", 3, 7) \o Rep("l1", 13, 10),
       Rep("l1", 3, 2) \o Rep("l1", 12, 7) \o Rep("l1", 3, 7),
       Rep("l1", 4, 3) \o Rep("l1", 1, 3) \o Rep("l1", 4, 9),
       Rep("l1", 2, 2) \o Rep("l1", 1, 3) \o Rep("l1", 2, 4),
       Rep("l1", 11, 2) \o Rep("l1", 1, 3) \o Rep("l1", 11, 1) \o Rep("l1", 1, 3),
    \* long stays after a change, so that bounded starvation is exercised after the change
       Rep("l1", 3, 2) \o Rep("l1", 9, 52),
       Rep("l1", 9, 2) \o Rep("l1", 3, 52),
       Rep("l1", 2, 2) \o Rep("l1", 1, 15),
       Rep("l1", 1, 2) \o Rep("l1", 2, 15),
       Rep("l1", 4, 3) \o Rep("l1", 1, 35),
       Rep("l1", 13, 2) \o Rep("l1", 3, 112),
       Rep("l1", 5, 3) \o Rep("l1", 7, 28) \o Rep("l1", 5, 52)
    >>

StarveCases == {Rep("l1", 8, 40)}
MCCases == {MCCaseSeq[i] : i \in 1..Len(MCCaseSeq)}

=============================================================================
