------------------------------ MODULE MCFairness ------------------------------
(* Exhaustive check of Fairness.tla over FairnessCases; exports the family as JSON. *)
EXTENDS Fairness, FairnessCases, SequencesExt, Json

\* JSON export (functions with tuple domains are not JSON objects: flatten)
ProgJson(P) == [nodes |-> SetToSeq({[path |-> p, id |-> P[p].id, c |-> P[p].c] : p \in DOMAIN P}),
                uniform |-> Uniform(P), idc |-> IdConsistent(P), prodmax |-> ProdMax(P)]
Export == /\ ndJsonSerialize("progs.ndjson", [i \in 1..Len(MCProgs) |-> ProgJson(MCProgs[i])])
          /\ ndJsonSerialize("cases.ndjson", [i \in 1..Len(MCCaseSeq) |-> [atts |-> MCCaseSeq[i]]])
ASSUME Export
=============================================================================
