------------------------------ MODULE FairnessTrace ------------------------------
(* M-level trace specification: the recorded calls and returned digits must be a     *)
(* behaviour of Fairness.tla (the transcription of fairness.go); the random initial  *)
(* digits are the only unlogged choice and are inferred by TLC.                      *)
EXTENDS Fairness, FairnessCases, Json

Trace == ndJsonDeserialize("trace.ndjson")
VARIABLE l
tvars == <<vars, l>>

RECURSIVE CaseFrom(_)
CaseFrom(i) == IF i > Len(Trace) \/ Trace[i].e = "case" THEN <<>>
               ELSE IF Trace[i].e = "begin" THEN <<[pc |-> Trace[i].pc, p |-> Trace[i].p]>> \o CaseFrom(i + 1)
               ELSE CaseFrom(i + 1)

Ev(e) == l <= Len(Trace) /\ Trace[l].e = e /\ l' = l + 1

TInit == /\ l = 1 /\ cs = <<>> /\ k = 1 /\ phase = "begin" /\ path = <<>>
         /\ cpc = "" /\ stack = <<>> /\ idx = 0 /\ run = <<>> /\ steps = <<>>
TCase == /\ Ev("case") /\ cs' = CaseFrom(l + 1) /\ k' = 1 /\ phase' = "begin" /\ path' = <<>>
         /\ cpc' = "" /\ stack' = <<>> /\ idx' = 0 /\ run' = <<>> /\ steps' = <<>>
TBegin == Ev("begin") /\ Begin
TNext  == /\ Ev("next") /\ Next1
          /\ steps'[Len(steps')] = [id |-> Trace[l].id, c |-> Trace[l].c, r |-> Trace[l].r]
TEnd   == Ev("end") /\ End
TNext0 == TCase \/ TBegin \/ TNext \/ TEnd
=============================================================================
