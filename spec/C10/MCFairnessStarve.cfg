CONSTANTS
  Progs <- MCProgs
  Cases <- StarveCases
INIT Init
NEXT Next
INVARIANTS LeafReachAny
CHECK_DEADLOCK FALSE
