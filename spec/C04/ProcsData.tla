----------------------------- MODULE ProcsData -----------------------------
(* Input family of the C04 programs (constant level, evaluated once by TLC).  *)
(* TLC exports it to the Go driver (MCProcs!Export), so both sides run the    *)
(* same programs on the same inputs.                                          *)
EXTENDS Integers, Sequences, FiniteSets, SequencesExt, TLC
CONSTANTS MaxArg,      \* integer programs run for arg \in 0..MaxArg
          MaxNodes     \* tree program: every recursive tree with <= MaxNodes nodes

IntProgs == <<"fact", "evenodd", "sum", "tail", "nest", "ref", "lend", "lendt">>
PROGS == {IntProgs[zi] : zi \in 1..Len(IntProgs)} \cup {"tree"}

(* A tree with nodes 1..zn (root 1): parent vector zp with zp[k] < k; the      *)
(* children of a node are called in increasing id order.                      *)
ParentVecs(zn) == {zp \in [2..zn -> 1..zn] : \A zk \in 2..zn : zp[zk] < zk}
KidsFrom(zn, zp) == [zid \in 1..zn |-> SetToSortSeq({zk \in 2..zn : zp[zk] = zid}, LAMBDA za, zb : za < zb)]
TailModes == {"none", "all", "even"}
TailFrom(zn, zmode) == [zid \in 1..zn |-> CASE zmode = "none" -> FALSE
                                            [] zmode = "all"  -> TRUE
                                            [] OTHER          -> zid % 2 = 0]
TreeSet == UNION { { [kids |-> KidsFrom(zn, zp), tail |-> TailFrom(zn, zmode)] :
                        zp \in ParentVecs(zn), zmode \in TailModes } : zn \in 1..MaxNodes }
TREES == SetToSeq(TreeSet)

Kids(ztr, zid) == TREES[ztr].kids[zid]
TailOf(ztr, zid) == TREES[ztr].tail[zid]

(* lend, lendt: a reference to a variable of procedure Lend is the variable's name; *)
(* dereferencing selects the owner's current variable (zda, zdw = the current        *)
(* values of Lend's local da and parameter dw)                                       *)
Deref(zr, zda, zdw) == IF zr = "da" THEN zda ELSE zdw

ArgsOf(zprog) == IF zprog = "tree" THEN 1..Len(TREES) ELSE 0..MaxArg
=============================================================================
