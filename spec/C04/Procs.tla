------------------------------- MODULE Procs -------------------------------
(* C04 P-spec: PlusCal itself is the oracle for procedure-call semantics.            *)
(*                                                                                    *)
(* One PlusCal algorithm holding a family of small programs with procedures; the      *)
(* global `prog` selects the program, `arg` its input.  The TLA+ translation is NOT   *)
(* checked in: checks/C04.py runs `pcal` on a scratch copy on every invocation, so    *)
(* the oracle is whatever the PlusCal translator defines call/return to mean.         *)
(*                                                                                    *)
(* Every procedure below has a hand-built Go twin (harness/cmd/c04drv/progs.go)       *)
(* written in the shapes the PGo code generator emits (iface.Call(proc, retPC, args), *)
(* iface.TailCall(proc, args), iface.Return(), StateVars = params then locals,        *)
(* PreAmble writing the locals' initial values).  Labels and variable names are       *)
(* unique across the algorithm, so Go name "Fact.n" <-> PlusCal "n", Go label         *)
(* "Fact.f1" <-> PlusCal "f1".                                                        *)
(*                                                                                    *)
(* Programs (the quantifier of C04: call graph shape x parameter mode x arguments):   *)
(*   fact     recursion; parameter and locals used AFTER the recursive call returns;  *)
(*            a local initialised from the parameter, a local without initial value   *)
(*   evenodd  mutual recursion, both procedures keep live locals across the call      *)
(*   sum      self tail recursion (call P(..); return; inside P)                      *)
(*   tail     tail call to a different procedure, under a non-tail caller with locals *)
(*   nest     nesting depth 4 of distinct procedures, every level uses its own values *)
(*            after the callee returned; arguments bound in a permuted order          *)
(*   ref      by-reference parameters: a reference is a pointer value (the name of    *)
(*            the referenced cell of `mem`), exactly how the Go runtime passes refs;  *)
(*            references are swapped along a recursion and may alias                  *)
(*   tree     data-driven call graph: arg selects one of TREES (every ordered rooted   *)
(*            tree up to a size bound, with a flag per node that makes the call of    *)
(*            the last child a tail call); many activations of Node live at once      *)
(*   lend,    a procedure lends its OWN local (da) and its OWN parameter (dw) by        *)
(*   lendt    reference to another procedure, which reads and writes through the refs    *)
(*            (which of the two is lent as the first / second reference alternates with  *)
(*            the depth) and then re-enters the owner (mutual recursion through the      *)
(*            borrower):                                                                 *)
(*            `lend` with call + return at the next label, `lendt` with a tail call.     *)
(*            Meaning of a reference to a procedure variable (the meaning the compiler   *)
(*            gives it: PGo's PlusCal back end specialises the callee per ref argument   *)
(*            and substitutes the referenced variable for the parameter; the Go runtime  *)
(*            passes the resource NAME "Lend.da" and dereferences it at every access):  *)
(*            as in `ref`, a reference is the name of the referenced cell, here the      *)
(*            name of the procedure variable; Deref / WriteRef select the variable by    *)
(*            that name.  The borrower therefore operates on the owner's CURRENT         *)
(*            variable; when the owner is re-entered, the pushed frame holds the value   *)
(*            the variable has at the time of the call (including what was written       *)
(*            through the ref) and the return restores it.                               *)
(****************************************************************************)
EXTENDS Integers, Sequences, TLC, ProcsData

(* --algorithm Procs {
  variables prog \in PROGS, arg \in ArgsOf(prog),
            res = 1, out = << >>, mem = [g1 |-> 0, g2 |-> 0];

  \* write through a reference to a variable of Lend (lend, lendt)
  macro WriteRef(zref, zval) { if (zref = "da") { da := zval; } else { dw := zval; } }

  \* ---------------------------------------------------------------- fact
  procedure Fact(n)
    variables fk = n + 100, fj;
  {
    f1: if (n = 0) { return; } else { fj := n * 2; };
    f2: call Fact(n - 1);
    f3: res := res * n + (fj - 2 * n) + (fk - n - 100);
        out := Append(out, << n, fj, fk >>);
        return;
  }

  \* ---------------------------------------------------------------- evenodd
  procedure Even(ex)
    variables el = ex * 3;
  {
    e1: if (ex = 0) { res := 1; return; } else { call Odd(ex - 1); };
    e2: out := Append(out, << "even", ex, el >>);
        return;
  }
  procedure Odd(ox)
    variables ol = ox * 5;
  {
    o1: if (ox = 0) { res := 0; return; } else { call Even(ox - 1); };
    o2: out := Append(out, << "odd", ox, ol >>);
        return;
  }

  \* ---------------------------------------------------------------- sum (self tail recursion)
  procedure Sum(m, acc)
    variables sl = m + acc;
  {
    s1: if (m = 0) { res := acc; out := Append(out, sl); return; }
        else { out := Append(out, sl); call Sum(m - 1, acc + m); return; };
  }

  \* ---------------------------------------------------------------- tail (cross-procedure tail call)
  procedure Outer(oa)
    variables ov = oa + 7;
  {
    u1: call A(oa + 1);
    u2: res := res + ov * 100 + oa;
        call A(ov);
    u3: res := res + ov * 1000 + oa;
        return;
  }
  procedure A(x)
    variables t = 5;
  {
    ta1: t := t + x;
    ta2: call B(t, x);
        return;
  }
  procedure B(p, q)
  {
    b1: res := res * 2 + p * 10 + q;
        return;
  }

  \* ---------------------------------------------------------------- nest (depth 4)
  procedure N1(a1)
    variables l1 = a1 + 1;
  {
    n1: call N2(l1 + 1, a1);
    n1r: out := Append(out, << 1, a1, l1 >>);
        return;
  }
  procedure N2(a2, b2)
    variables l2 = a2 * 2;
  {
    n2: call N3(b2, l2, a2);
    n2r: out := Append(out, << 2, a2, b2, l2 >>);
        return;
  }
  procedure N3(a3, b3, c3)
    variables l3;
  {
    n3: l3 := a3 + b3 + c3;
    n3c: call N4(c3, a3);
    n3r: out := Append(out, << 3, a3, b3, c3, l3 >>);
        if (a3 > 0) { call N1(a3 - 1); } else { return; };
    n3s: out := Append(out, << 33, a3, b3, c3, l3 >>);
        return;
  }
  procedure N4(a4, b4)
    variables l4 = b4 - a4;
  {
    n4: out := Append(out, << 4, a4, b4, l4 >>);
        return;
  }

  \* ---------------------------------------------------------------- ref (by-reference parameters)
  procedure Inc(r, d)
  {
    i1: mem[r] := mem[r] + d;
        return;
  }
  procedure Both(rp, rq, bn)
    variables bt = bn * 2 + 1;
  {
    r1: call Inc(rp, bn);
    r2: call Inc(rq, bt);
    r3: if (bn > 0) { call Both(rq, rp, bn - 1); } else { call Both2(rp, rp); };
    r4: mem[rp] := mem[rp] * 2 + bt;
        out := Append(out, << bn, bt, mem[rp], mem[rq] >>);
        return;
  }
  procedure Both2(sp, sq)
  {
    q1: call Inc(sp, 100);
    q2: call Inc(sq, 1000);
        return;
  }

  \* ---------------------------------------------------------------- tree (data-driven call graph)
  procedure Node(tr, id)
    variables i = 1, loc = id * 7 + tr;
  {
    t1: if (i > Len(Kids(tr, id))) {
          out := Append(out, << id, loc, i >>);
          return;
        } else if (i = Len(Kids(tr, id)) /\ TailOf(tr, id)) {
          out := Append(out, << id, loc, -i >>);
          call Node(tr, Kids(tr, id)[i]);
          return;
        } else {
          call Node(tr, Kids(tr, id)[i]);
        };
    t2: i := i + 1;
        goto t1;
  }

  \* ---------------------------------------------------------------- lend, lendt (own variables lent by reference)
  procedure Lend(dn, dw, dt)
    variables da = dn * 10;
  {
    d1: if (dn = 0) { out := Append(out, << 0, dw, da >>); return; }
        else if (dn % 2 = 1) { call Borrow("da", "dw", dn, dt); }
        else { call Borrow("dw", "da", dn, dt); };
    d2: out := Append(out, << dn, dw, da >>);
        return;
  }
  procedure Borrow(wx, wy, wm, wt)
  {
    w1: WriteRef(wx, Deref(wx, da, dw) + wm);
    w2: WriteRef(wy, Deref(wy, da, dw) * 2 + Deref(wx, da, dw));
    w3: if (wt) { call Lend(wm - 1, Deref(wy, da, dw) + 1, wt); return; }
        else { call Lend(wm - 1, Deref(wy, da, dw) + 1, wt); };
    w4: out := Append(out, << -wm, Deref(wx, da, dw), Deref(wy, da, dw) >>);
        return;
  }

  {
    m0: if (prog = "fact") { call Fact(arg); }
        else if (prog = "evenodd") { call Even(arg); }
        else if (prog = "sum") { call Sum(arg, 0); }
        else if (prog = "tail") { call Outer(arg); }
        else if (prog = "nest") { call N1(arg); }
        else if (prog = "ref") { call Both("g1", "g2", arg); }
        else if (prog = "lend") { call Lend(arg, 7, FALSE); }
        else if (prog = "lendt") { call Lend(arg, 7, TRUE); }
        else { call Node(arg, 1); };
    m1: res := res + 1;
  }
} *)
\* BEGIN TRANSLATION
\* END TRANSLATION
=============================================================================
