\* P level + M level
CONSTANTS
  defaultInitValue = defaultInitValue
INIT TraceInit
NEXT TraceNext
INVARIANTS StackOK
CHECK_DEADLOCK FALSE
