\* one walk over the recording; verdict.ndjson lists unconsumable lines (P) and frame drift (M)
CONSTANTS
  defaultInitValue = defaultInitValue
INIT TraceInit
NEXT TraceNext
CHECK_DEADLOCK FALSE
