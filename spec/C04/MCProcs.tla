------------------------------ MODULE MCProcs ------------------------------
(* Design level: the translated programs (Procs.tla, translated by pcal at check    *)
(* time; ProcsView.tla is generated from the translation by checks/C04.py) are      *)
(* explored exhaustively for every program and argument of the family.              *)
(*   FrameDiscipline  every step obeys the generic frame discipline (Frames.tla)    *)
(*   Results          each activation saw its own arguments and locals: the values  *)
(*                    logged after the callees returned are the expected ones       *)
(*   NoStaleParam     the family never makes a cross-procedure tail call from a     *)
(*                    procedure that has an outer live activation (the one place    *)
(*                    where pcal's translation is not return-then-call)             *)
(* Export writes the input family for the Go driver.                                *)
EXTENDS ProcsView, Frames, Json

FrameDiscipline == [][FrameStep(STK, STK', PRaw, PRaw', PC')]_vars
StackWellFormed == WellFormed(STK)

RECURSIVE FactOf(_)
FactOf(zn) == IF zn = 0 THEN 1 ELSE zn * FactOf(zn - 1)
SumTo(zn) == (zn * (zn + 1)) \div 2

TreeN(ztr) == Len(TREES[ztr].kids)

(* lend, lendt: what each activation of Lend must see.  The activation with dn = k > 0 is  *)
(* called with dw = LendW(k); the borrower writes through its references wx, wy              *)
(* (k odd: wx -> da, wy -> dw; k even: wx -> dw, wy -> da)  X := X + k, then Y := 2 * Y + X,  *)
(* and re-enters Lend with dw = Y + 1; the nested activation must not disturb da or dw.     *)
RECURSIVE LendW(_, _), LendDa(_, _), LendDw(_, _)
LendW(zk, zarg) == IF zk = zarg THEN 7
                   ELSE (IF (zk + 1) % 2 = 1 THEN LendDw(zk + 1, zarg) ELSE LendDa(zk + 1, zarg)) + 1
LendDa(zk, zarg) == IF zk % 2 = 1 THEN 11 * zk ELSE 21 * zk + LendW(zk, zarg)
LendDw(zk, zarg) == IF zk % 2 = 1 THEN 2 * LendW(zk, zarg) + 11 * zk ELSE LendW(zk, zarg) + zk
LendSeen(zk, zarg) == << zk, LendDw(zk, zarg), LendDa(zk, zarg) >>                  \* logged at d2
LendBorrowed(zk, zarg) == IF zk % 2 = 1 THEN << -zk, LendDa(zk, zarg), LendDw(zk, zarg) >>
                                        ELSE << -zk, LendDw(zk, zarg), LendDa(zk, zarg) >>  \* logged at w4
LendOut(zarg, ztail) ==
    << << 0, LendW(0, zarg), 0 >> >> \o
    (IF ztail THEN [zi \in 1..zarg |-> LendSeen(zi, zarg)]
              ELSE [zi \in 1..(2 * zarg) |-> IF zi % 2 = 1 THEN LendBorrowed((zi + 1) \div 2, zarg)
                                                          ELSE LendSeen(zi \div 2, zarg)])

Results ==
    PC = "Done" =>
      /\ STK = << >>
      /\ prog = "fact" =>
            /\ res = FactOf(arg) + 1
            /\ out = [zk \in 1..arg |-> << zk, 2 * zk, zk + 100 >>]
      /\ prog = "evenodd" =>
            /\ res = (IF arg % 2 = 0 THEN 1 ELSE 0) + 1
            /\ out = [zk \in 1..arg |-> IF (arg - zk) % 2 = 0 THEN << "even", zk, 3 * zk >>
                                                              ELSE << "odd", zk, 5 * zk >>]
      /\ prog = "sum" =>
            /\ res = SumTo(arg) + 1
            /\ Len(out) = arg + 1
            /\ \A zk \in 1..Len(out) : out[zk] = (arg - zk + 1) + (SumTo(arg) - SumTo(arg - zk + 1))
      /\ prog = "nest" =>
            \A zk \in 1..Len(out) :
               /\ out[zk][1] = 1 => out[zk][3] = out[zk][2] + 1
               /\ out[zk][1] = 2 => out[zk][4] = out[zk][2] * 2 /\ out[zk][3] = out[zk][2] - 2
               /\ out[zk][1] \in {3, 33} => out[zk][5] = out[zk][2] + out[zk][3] + out[zk][4]
               /\ out[zk][1] = 4 => out[zk][4] = out[zk][3] - out[zk][2]
      /\ prog = "ref" =>
            \A zk \in 1..Len(out) : /\ out[zk][1] = zk - 1
                                    /\ out[zk][2] = 2 * out[zk][1] + 1
                                    /\ {out[zk][3], out[zk][4]} = {mem.g1, mem.g2} \/ zk < Len(out)
      /\ prog = "lend" => res = 2 /\ out = LendOut(arg, FALSE)
      /\ prog = "lendt" => res = 2 /\ out = LendOut(arg, TRUE)
      /\ prog = "tree" =>
            /\ Len(out) = TreeN(arg)
            /\ {out[zk][1] : zk \in 1..Len(out)} = 1..TreeN(arg)
            /\ \A zk \in 1..Len(out) : out[zk][2] = out[zk][1] * 7 + arg

(* pcs of the cross-procedure tail calls of the family, with the calling procedure *)
NoStaleParam == /\ PC = "ta2" => ~LiveIn(Tail(STK), "A")
                /\ (PC = "w3" /\ wt) => ~LiveIn(Tail(STK), "Borrow")

Export ==
    /\ ndJsonSerialize("family.ndjson",
          << [ints |-> [zp \in {IntProgs[zi] : zi \in 1..Len(IntProgs)} |-> SetToSortSeq(ArgsOf(zp), LAMBDA za, zb : za < zb)],
              ntrees |-> Len(TREES),
              trees |-> TREES] >>)
ASSUME Export
=============================================================================
