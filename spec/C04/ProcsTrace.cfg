CONSTANTS
  MaxArg = 3
  MaxNodes = 4
  defaultInitValue = defaultInitValue
INIT TraceInit
NEXT TraceNext
INVARIANTS StackOK
CHECK_DEADLOCK FALSE
