\* P level (verdict: the trace must be consumed) + M level (StackOK: drift)
CONSTANTS
  MaxArg = 3
  MaxNodes = 4
  defaultInitValue = defaultInitValue
INIT TraceInit
NEXT TraceNext
INVARIANTS StackOK
CHECK_DEADLOCK FALSE
