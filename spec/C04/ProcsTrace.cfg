\* one walk over the recording; verdict.ndjson lists unconsumable lines (P) and frame drift (M)
CONSTANTS
  MaxArg = 3
  MaxNodes = 4
  defaultInitValue = defaultInitValue
INIT TraceInit
NEXT TraceNext
CHECK_DEADLOCK FALSE
