CONSTANTS
  defaultInitValue = defaultInitValue
INIT TInit
NEXT PNext
INVARIANTS KnownLabels KnownVars Result
PROPERTY FrameDiscipline
CHECK_DEADLOCK FALSE
