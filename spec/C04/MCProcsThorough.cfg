CONSTANTS
  MaxArg = 5
  MaxNodes = 5
  defaultInitValue = defaultInitValue
INIT TInit
NEXT PNext
INVARIANTS Results NoStaleParam StackWellFormed
PROPERTY FrameDiscipline
CHECK_DEADLOCK FALSE
