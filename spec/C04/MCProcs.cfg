CONSTANTS
  MaxArg = 3
  MaxNodes = 4
  defaultInitValue = defaultInitValue
INIT TInit
NEXT PNext
INVARIANTS Results NoStaleParam StackWellFormed
PROPERTY FrameDiscipline
CHECK_DEADLOCK FALSE
