\* P level only
CONSTANTS
  MaxArg = 3
  MaxNodes = 4
  defaultInitValue = defaultInitValue
INIT TraceInit
NEXT TraceNext
CHECK_DEADLOCK FALSE
