\* P level only
CONSTANTS
  defaultInitValue = defaultInitValue
INIT TraceInit
NEXT TraceNext
CHECK_DEADLOCK FALSE
