------------------------------- MODULE PSData -------------------------------
(* Binding data for the shipped pair ProcedureSpaghetti.tla.expectpcal / .go: the     *)
(* generated Go archetype Arch1 is run as the instance                                *)
(*     process (Pross1 = 1) == instance Arch1(ref V1, 30) mapping V1 via M            *)
(* PS.tla (cut out of the repository's .expectpcal and translated by pcal at check    *)
(* time, see checks/C04.py extract_ps) holds that process and the specialised         *)
(* procedures it reaches.  Labels keep the names of the generated Go code; the        *)
(* procedure variables are those of the specialisation (Proc1.c is c0).               *)
EXTENDS Integers

PSArgs == {0, 7, 13}
PSSelf == 1
PSKnownVars == {"b", "c0"}
PSKnownLabels == {"Arch1lbl", "Proc1lbl1", "Proc1lbl2", "Proc2lbl1", "Done"}
=============================================================================
