------------------------------- MODULE PSData -------------------------------
(* Binding data for the shipped pair ProcedureSpaghetti.tla.expectpcal / .go:        *)
(* the generated Go archetype Arch1 is run as `process (Pross1 = 1) == instance       *)
(* Arch1(ref V1, 30) mapping V1 via M`.  pcal renames the labels of the specialised   *)
(* procedures; GoShort gives, for each label process 1 can reach, the label of the    *)
(* generated Go code (without its "Proc." prefix).  MCPS checks that process 1 never  *)
(* leaves this table (otherwise the view is out of date: inconclusive, no verdict).   *)
EXTENDS Integers

PSArgs == {0, 7, 13}
PSSelf == 1
GoShort == [Arch1lbl_  |-> "Arch1lbl",
            Proc1lbl1_ |-> "Proc1lbl1",
            Proc1lbl2_ |-> "Proc1lbl2",
            Proc2lbl1_ |-> "Proc2lbl1",
            Done       |-> "Done"]
PSKnownVars == {"b", "c0"}
=============================================================================
