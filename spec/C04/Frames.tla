------------------------------- MODULE Frames -------------------------------
(* The frame discipline of PlusCal procedure calls, stated once, generically, over  *)
(* the stack (a sequence of frame records with fields `procedure`, `pc` and one     *)
(* field per parameter / local of that procedure) and the record of all procedure   *)
(* variables.  It is checked by TLC as an action property of every translated       *)
(* program (MCProcs, MCPS) so that the intent of C04 is explicit:                   *)
(*   call    pushes one frame holding the return label and the CURRENT values of    *)
(*           the callee's parameters and locals, and leaves the rest of the stack;  *)
(*   return  pops exactly one frame, resumes at its label and restores exactly the  *)
(*           values it holds;                                                       *)
(*   tail call (call P(..); return;)  behaves as return followed by call: the       *)
(*           stack keeps its depth and the return label of the replaced frame.      *)
(* "Live": an activation of the procedure is still on the stack -- only then are    *)
(* the values of its variables observable by the program.                           *)
EXTENDS Integers, Sequences

FrameVars(zf) == DOMAIN zf \ {"procedure", "pc"}
LiveIn(zstk, zproc) == \E zi \in 1..Len(zstk) : zstk[zi].procedure = zproc

Push(zs, zs2, zpv) ==
    /\ Len(zs2) = Len(zs) + 1
    /\ Tail(zs2) = zs
    /\ \A zv \in FrameVars(Head(zs2)) : Head(zs2)[zv] = zpv[zv]

Pop(zs, zs2, zpv2, zpc2) ==
    /\ zs # << >>
    /\ zs2 = Tail(zs)
    /\ zpc2 = Head(zs).pc
    /\ \A zv \in FrameVars(Head(zs)) : zpv2[zv] = Head(zs)[zv]

(* cross-procedure tail call: the callee's frame replaces the caller's.  pcal restores *)
(* the caller's locals but not its parameters; they are dead unless an outer           *)
(* activation of the caller exists, which the program family excludes (NoStaleParam).  *)
Replace(zs, zs2, zpv, zpv2) ==
    /\ zs # << >> /\ zs2 # << >>
    /\ Tail(zs2) = Tail(zs)
    /\ Head(zs2).pc = Head(zs).pc
    /\ Head(zs2).procedure # Head(zs).procedure
    /\ \A zv \in FrameVars(Head(zs2)) : Head(zs2)[zv] = zpv[zv]
    /\ LiveIn(Tail(zs), Head(zs).procedure) =>
          \A zv \in FrameVars(Head(zs)) : zpv2[zv] = Head(zs)[zv]

FrameStep(zs, zs2, zpv, zpv2, zpc2) ==
    \/ zs2 = zs
    \/ Push(zs, zs2, zpv)
    \/ Pop(zs, zs2, zpv2, zpc2)
    \/ Replace(zs, zs2, zpv, zpv2)

(* the stack is well formed: every frame names a procedure and a return label *)
WellFormed(zs) == \A zi \in 1..Len(zs) : {"procedure", "pc"} \subseteq DOMAIN zs[zi]
=============================================================================
