"""Shared machinery for the /verif checks (DESIGN.md section 4).

Everything a per-property check needs: scratch directories, TLC / pcal / Go driver
invocation under timeouts, TLC output parsing, evidence writing, known-findings
handling and verdict lines.

Exit codes of bin/check:  0 = property held on everything explored (possibly with
KNOWN-FINDING lines), 1 = VIOLATION (a real-code execution violates the property),
2 = INCONCLUSIVE (tool failure, dead driver, timeout) -- never used as a verdict.
"""
import atexit
import hashlib
import json
import os
import re
import shutil
import subprocess
import sys
import tempfile
import time

VERIF = os.path.dirname(os.path.dirname(os.path.abspath(__file__)))
REPO = os.environ.get("VERIF_REPO", "/repo")
HARNESS = os.path.join(VERIF, "harness")
SPEC = os.path.join(VERIF, "spec")
EVIDENCE = os.environ.get("VERIF_EVIDENCE_DIR", os.path.join(VERIF, "evidence"))
REPLAYS = os.environ.get("VERIF_REPLAYS_DIR", os.path.join(VERIF, "replays"))
TLA_JAR = "/opt/veriftools/tla/tla2tools.jar"
TLA_CP = TLA_JAR + ":/opt/veriftools/tla/CommunityModules-deps.jar"
NCPU = os.cpu_count() or 4


class Inconclusive(Exception):
    """Tool failure / dead driver / timeout: exit 2, never a verdict."""


# --------------------------------------------------------------------------- scratch

_scratch_dirs = []


def _cleanup():
    for d in _scratch_dirs:
        shutil.rmtree(d, ignore_errors=True)


atexit.register(_cleanup)


def scratch(prefix="verif."):
    d = tempfile.mkdtemp(prefix=prefix, dir=os.environ.get("VERIF_TMP", "/tmp"))
    if not os.environ.get("VERIF_KEEP"):
        _scratch_dirs.append(d)
    return d


# --------------------------------------------------------------------------- subprocess


def run(cmd, cwd=None, timeout=600, env=None, stdin=None, check=False):
    """Run a command under a timeout. Returns (rc, stdout+stderr). rc=-9 on timeout."""
    e = dict(os.environ)
    if env:
        e.update(env)
    try:
        p = subprocess.run(cmd, cwd=cwd, env=e, input=stdin, stdout=subprocess.PIPE,
                           stderr=subprocess.STDOUT, timeout=timeout, text=True,
                           errors="replace")
        rc, out = p.returncode, p.stdout
    except subprocess.TimeoutExpired as ex:
        out = ex.stdout or ""
        if isinstance(out, bytes):
            out = out.decode(errors="replace")
        rc = -9
    if check and rc != 0:
        raise Inconclusive("command failed rc=%s: %s\n%s" % (rc, " ".join(map(str, cmd)), out[-4000:]))
    return rc, out


# --------------------------------------------------------------------------- Go drivers


WORK_MODULES = [
    "distsys", "systems/dqueue", "systems/gcounter", "systems/loadbalancer", "systems/locksvc",
    "systems/nestedcrdtimpl", "systems/pbkvs", "systems/proxy", "systems/raftkvs", "systems/replicatedkv",
    "systems/shcounter", "systems/shopcart",
    "pgo/test/files/general/IndexingLocals.tla.gotests", "pgo/test/files/general/NonDetExploration.tla.gotests",
    "pgo/test/files/general/ProcedureSpaghetti.tla.gotests", "pgo/test/files/general/bug_119.tla.gotests",
    "pgo/test/files/general/hello.tla.gotests", "pgo/test/files/general/ExprTests.tla.gotests",
    "pgo/test/files/general/bug2_124.tla.gotests",
    "pgo/test/files/gogen/bug_167.tla.gotests", "pgo/test/files/general/PBFail4_bug125.tla.gotests",
]


def make_gowork(dirpath):
    """Write a go.work that joins /verif/harness with the modules of REPO's working tree."""
    os.makedirs(dirpath, exist_ok=True)
    p = os.path.join(dirpath, "go.work")
    with open(p, "w") as f:
        f.write("go 1.24.0\n\nuse (\n\t%s\n" % HARNESS)
        for m in WORK_MODULES:
            if os.path.exists(os.path.join(REPO, m, "go.mod")):
                f.write("\t%s\n" % os.path.join(REPO, m))
        f.write(")\n")
    src = os.path.join(REPO, "go.work.sum")
    if os.path.exists(src):
        shutil.copyfile(src, os.path.join(dirpath, "go.work.sum"))
    return p


def go_env(gowork):
    return {"GOFLAGS": "", "GOPROXY": "off", "GOWORK": gowork, "GOTOOLCHAIN": "auto"}


def build_driver(name, outdir, tags="verif", timeout=1200):
    """Build /verif/harness/cmd/<name> against REPO's current working tree (never cached binaries)."""
    gowork = make_gowork(os.path.join(outdir, "gowork"))
    out = os.path.join(outdir, name)
    rc, o = run(["go", "build", "-tags", tags, "-o", out, "./cmd/" + name], cwd=HARNESS,
                env=go_env(gowork), timeout=timeout)
    if rc != 0:
        raise Inconclusive("go build of driver %s failed:\n%s" % (name, o[-6000:]))
    return out


# --------------------------------------------------------------------------- TLC


class TLCResult:
    def __init__(self, rc, out, wall):
        self.rc = rc
        self.out = out
        self.wall = wall
        self.generated = 0
        self.distinct = 0
        self.depth = 0
        self.violation = None  # text of the first "Error:" line that is a property violation
        self.error = None  # any other error (parse error, evaluation error, ...)
        self.timed_out = rc == -9
        m = re.findall(r"(\d+) states generated, (\d+) distinct states found", out)
        if m:
            self.generated, self.distinct = int(m[-1][0]), int(m[-1][1])
        m = re.findall(r"The number of states generated: (\d+)", out)
        if m and not self.generated:
            self.generated = int(m[-1])
            self.distinct = self.distinct or 0
        m = re.findall(r"The depth of the complete state graph search is (\d+)", out)
        if m:
            self.depth = int(m[-1])
        for line in out.splitlines():
            if line.startswith("Error:"):
                if re.search(r"Invariant .* is violated|Deadlock reached|Action property .* is violated|"
                             r"Temporal properties were violated|is violated by the initial state|"
                             r"Postcondition .* is false|The first argument of Assert evaluated to FALSE|"
                             r"Assumption .* is false", line):
                    if self.violation is None:
                        self.violation = line.strip()
                elif "The behavior up to this point is" in line or "The following behavior constitutes" in line:
                    pass
                elif self.error is None and self.violation is None:
                    self.error = line.strip()
        self.ok = (rc == 0 and self.violation is None and self.error is None)

    def coverage_zero(self):
        """Lines of -coverage output whose count is 0 (vacuity indicator)."""
        return [l.strip() for l in self.out.splitlines() if re.search(r": 0$", l) and "line" in l]

    def summary(self, name):
        return {"job": name, "generated": self.generated, "distinct": self.distinct,
                "depth": self.depth, "wall_s": round(self.wall, 1), "ok": self.ok,
                "violation": self.violation, "error": self.error, "timed_out": self.timed_out}


def tlc(workdir, module, cfg=None, workers=None, timeout=600, extra=None, deadlock=True,
        heap=None, jvm=None, simulate=None, depth=None, seed=None, dump=None):
    """Run TLC on <module>.tla in workdir (already a scratch copy). Returns TLCResult."""
    meta = tempfile.mkdtemp(prefix="meta.", dir=workdir)
    cmd = ["java", "-XX:+UseParallelGC"]
    if heap:
        cmd.append("-Xmx" + heap)
    cmd += ["-Xss64m"]
    if jvm:
        cmd += jvm
    cmd += ["-cp", TLA_CP, "tlc2.TLC", "-metadir", meta, "-noGenerateSpecTE"]
    if cfg:
        cmd += ["-config", cfg]
    cmd += ["-workers", str(workers or "auto")]
    if not deadlock:
        cmd += ["-deadlock"]
    if simulate:
        cmd += ["-simulate", simulate]
        if depth:
            cmd += ["-depth", str(depth)]
    if seed is not None:
        cmd += ["-seed", str(seed)]
    if dump:
        cmd += ["-dump", "dot,actionlabels", dump]
    if extra:
        cmd += extra
    cmd.append(module)
    t0 = time.time()
    rc, out = run(cmd, cwd=workdir, timeout=timeout)
    shutil.rmtree(meta, ignore_errors=True)
    return TLCResult(rc, out, time.time() - t0)


def pcal(workdir, module, timeout=120):
    rc, out = run(["java", "-cp", TLA_CP, "pcal.trans", "-nocfg", module], cwd=workdir, timeout=timeout)
    if rc != 0 or "error" in out.lower() and "Translation completed" not in out:
        raise Inconclusive("pcal failed on %s:\n%s" % (module, out[-3000:]))
    return out


def copy_specs(srcdir, dst, names=None):
    os.makedirs(dst, exist_ok=True)
    for f in os.listdir(srcdir):
        if names is None or f in names:
            p = os.path.join(srcdir, f)
            if os.path.isfile(p):
                shutil.copy(p, dst)


# --------------------------------------------------------------------------- findings


def load_known_findings():
    p = os.path.join(VERIF, "known_findings.json")
    if not os.path.exists(p):
        return {"known": [], "fixed": []}
    return json.load(open(p))


# --------------------------------------------------------------------------- check context


class Check:
    """One invocation of one property's check. Collects TLC jobs, traces, samples,
    violations, known findings; writes the evidence file; decides the exit code."""

    def __init__(self, pid, tier, seed):
        self.pid = pid
        self.tier = tier
        self.seed = seed
        self.t0 = time.time()
        self.tlc_jobs = []
        self.states = 0
        self.transitions = 0
        self.traces = 0
        self.samples = []
        self.violations = []  # list of dict(key, what, replay)
        self.known_hits = []
        self.inconclusive = []
        self.notes = {}
        self.assumptions = []
        self.gaps = []
        self.drift = []
        self.exhaustive = False
        kf = load_known_findings()
        self.known = [k for k in kf.get("known", []) if k.get("property") == pid]
        self.tmp = scratch("verif.%s." % pid)
        self.bindir = os.path.join(self.tmp, "bin")
        os.makedirs(self.bindir, exist_ok=True)
        os.makedirs(REPLAYS, exist_ok=True)

    def quick(self):
        return self.tier == "quick"

    # -- parallel sections: a fork shares scratch, known findings and identity, collects on its own; merge() folds it back
    def fork(self):
        sub = Check.__new__(Check)
        sub.__dict__.update(self.__dict__)
        sub.tlc_jobs, sub.samples, sub.violations, sub.known_hits = [], [], [], []
        sub.inconclusive, sub.notes, sub.assumptions, sub.gaps, sub.drift = [], {}, [], [], []
        sub.states = sub.transitions = sub.traces = 0
        return sub

    def merge(self, sub):
        self.tlc_jobs += sub.tlc_jobs
        self.states += sub.states
        self.transitions += sub.transitions
        self.traces += sub.traces
        for s_ in sub.samples:
            self.sample(s_, cap=12)
        for v in sub.violations:
            if v["replay"] not in [x["replay"] for x in self.violations]:
                self.violations.append(v)
        for h in sub.known_hits:
            if h["key"] not in [x["key"] for x in self.known_hits]:
                self.known_hits.append(h)
        self.inconclusive += sub.inconclusive
        self.notes.update(sub.notes)
        self.assumptions += [a for a in sub.assumptions if a not in self.assumptions]
        self.gaps += sub.gaps
        self.drift += sub.drift

    # -- TLC bookkeeping
    def add_tlc(self, name, res, expect_violation=False):
        """Account a TLC run. Design-level runs must be clean (res.ok); otherwise the run is
        inconclusive unless the caller handles res.violation itself (expect_violation)."""
        self.tlc_jobs.append(res.summary(name))
        self.states += res.distinct or res.generated
        self.transitions += res.generated
        if res.timed_out:
            self.inconclusive.append("TLC job %s timed out" % name)
        elif res.error:
            self.inconclusive.append("TLC job %s error: %s" % (name, res.error))
        elif res.violation and not expect_violation:
            # a TLC counterexample on a model is NOT a verdict (DESIGN section 3)
            self.inconclusive.append("TLC job %s: %s (model-level counterexample, not reproduced on code)" % (name, res.violation))
        return res

    def sample(self, s, cap=6):
        if len(self.samples) < cap:
            self.samples.append(s)

    # -- verdicts
    def violation(self, key, what, replay_obj):
        """Report a real-code violation. key identifies the failing input/call site/history
        class; if known_findings.json lists a matching key it is a KNOWN-FINDING instead."""
        for k in self.known:
            if re.fullmatch(k["key"], key):
                if k["key"] not in [h["key"] for h in self.known_hits]:
                    self.known_hits.append({"key": k["key"], "what": k.get("what", what)})
                return False
        h = hashlib.sha1((key + json.dumps(replay_obj, sort_keys=True, default=str)).encode()).hexdigest()[:10]
        path = os.path.join(REPLAYS, "%s-%s.json" % (self.pid, h))
        with open(path, "w") as f:
            json.dump({"property": self.pid, "key": key, "what": what, "tier": self.tier,
                       "seed": self.seed, "case": replay_obj}, f, indent=1, default=str)
        if path not in [v["replay"] for v in self.violations]:
            self.violations.append({"key": key, "what": what, "replay": path})
        return True

    def finish(self, rule, extra_cov=None, level="model_checking"):
        wall = time.time() - self.t0
        cov = {
            "states": max(self.states, 0),
            "transitions": max(self.transitions, 0),
            "traces_validated_against_impl": self.traces,
            "samples": self.samples if self.samples else ["(no sample recorded)"],
            "rule": rule,
            "exhaustive": self.exhaustive,
            "tlc_jobs": self.tlc_jobs,
            "gaps": self.gaps,
            "drift_events": self.drift,
            "known_findings_hit": self.known_hits,
            "inconclusive": self.inconclusive,
        }
        cov.update(self.notes)
        if extra_cov:
            cov.update(extra_cov)
        ev = {"property_id": self.pid, "tier": self.tier, "seed": self.seed, "level": level,
              "coverage": cov, "assumptions": self.assumptions, "wall_s": round(wall, 1),
              "violations": len(self.violations)}
        os.makedirs(EVIDENCE, exist_ok=True)
        with open(os.path.join(EVIDENCE, self.pid + ".json"), "w") as f:
            json.dump(ev, f, indent=1, default=str)
        for h in self.known_hits:
            print("KNOWN-FINDING: property=%s %s" % (self.pid, h["what"]))
        for v in self.violations:
            print("VIOLATION property=%s replay=%s" % (self.pid, v["replay"]))
            print("  " + v["what"])
        if self.violations:
            return 1
        if self.inconclusive:
            for i in self.inconclusive:
                print("INCONCLUSIVE: " + i)
            return 2
        print("OK property=%s tier=%s seed=%d states=%d transitions=%d traces=%d wall=%.1fs" % (
            self.pid, self.tier, self.seed, self.states, self.transitions, self.traces, wall))
        return 0


def read_jsonl(path):
    out = []
    with open(path) as f:
        for line in f:
            line = line.strip()
            if line:
                out.append(json.loads(line))
    return out


# --------------------------------------------------------------------------- trace folding
# Many checks record real-code executions as ndjson, one event per line, many executions
# ("cases") concatenated, each introduced by a line {"e": "case", ...}. A trace spec consumes
# one line per step (variable l = next line to consume). TLC is run with one worker; the
# trace is accepted iff depth = lines + 1 and no invariant is violated.

import concurrent.futures


def split_cases(lines):
    segs, cur = [], None
    for ln in lines:
        if ln.get("e") == "case":
            cur = [ln]
            segs.append(cur)
        elif cur is not None:
            cur.append(ln)
    return segs


def _fold_once(specdir, module, cfg, segs, timeout, tracefile, extra_files=None, jvm=None):
    work = tempfile.mkdtemp(prefix="fold.", dir=os.path.dirname(specdir))
    copy_specs(specdir, work)
    for k, v in (extra_files or {}).items():
        shutil.copy(v, os.path.join(work, k))
    n = 0
    with open(os.path.join(work, tracefile), "w") as f:
        for s in segs:
            for ln in s:
                f.write(json.dumps(ln) + "\n")
                n += 1
    res = tlc(work, module, cfg=cfg, workers=1, timeout=timeout, deadlock=False, jvm=jvm)
    shutil.rmtree(work, ignore_errors=True)
    return res, n


def _locate(segs, lineno):
    """index of the segment containing 1-based line number lineno"""
    n = 0
    for i, s in enumerate(segs):
        if lineno <= n + len(s):
            return i
        n += len(s)
    return len(segs) - 1


def fold_traces(specdir, module, cfg, segs, timeout=600, tracefile="trace.ndjson", chunks=1,
                max_rounds=6, extra_files=None, jvm=None):
    """Validate case segments with a trace spec. Returns dict(accepted=int, rejected=[...],
    states=int, transitions=int, errors=[...]). A rejected entry is
    dict(seg=<segment>, kind='invariant'|'stuck', text=..., line_in_seg=int)."""
    out = {"accepted": 0, "rejected": [], "states": 0, "transitions": 0, "errors": []}
    if not segs:
        return out
    chunks = max(1, min(chunks, len(segs)))
    parts = [segs[i::chunks] for i in range(chunks)]

    def work(part):
        acc, rej, st, tr, errs = 0, [], 0, 0, []
        part = list(part)
        rounds = 0
        while part and rounds < max_rounds:
            rounds += 1
            res, n = _fold_once(specdir, module, cfg, part, timeout, tracefile, extra_files, jvm)
            st += res.distinct
            tr += res.generated
            if res.timed_out or res.error:
                errs.append(res.error or "timeout")
                break
            if res.violation:
                m = re.findall(r"^/\\ l = (\d+)", res.out, re.M)
                lineno = (int(m[-1]) - 1) if m else 1
                kind = "invariant"
            elif res.depth < n + 1:
                lineno = max(res.depth, 1)
                kind = "stuck"
            else:
                acc += len(part)
                part = []
                break
            i = _locate(part, lineno)
            before = sum(len(s) for s in part[:i])
            rej.append({"seg": part[i], "kind": kind, "text": res.violation or "trace not accepted by the specification",
                        "line_in_seg": lineno - before})
            acc += i  # segments before the rejected one were consumed without complaint
            part = part[i + 1:]
        if part and rounds >= max_rounds:
            errs.append("more than %d rejected segments in one chunk; %d segments left unchecked" % (max_rounds, len(part)))
        return acc, rej, st, tr, errs

    with concurrent.futures.ThreadPoolExecutor(max_workers=chunks) as ex:
        for acc, rej, st, tr, errs in ex.map(work, parts):
            out["accepted"] += acc
            out["rejected"] += rej
            out["states"] += st
            out["transitions"] += tr
            out["errors"] += errs
    return out


def tlc_simulate_budget(workdir, module, cfg, budget_s, depth, seed, workers=8, probe_num=20, max_num=200000):
    """TLC simulation sized to a wall-clock budget: a small probe run measures the speed on this
    machine (JVM start and parsing included), the main run gets the number of traces that fits.
    Returns the list of TLCResults (probe, main)."""
    t0 = time.time()
    r1 = tlc(workdir, module, cfg=cfg, workers=workers, timeout=max(600, budget_s * 4), deadlock=False,
             simulate="num=%d" % probe_num, depth=depth, seed=seed)
    out = [r1]
    el = time.time() - t0
    if not r1.ok or r1.generated == 0:
        return out
    # states/s of the stepping phase, assuming ~40% of the probe was start-up on a tiny run
    left = budget_s - el
    step_rate = r1.generated / max(el * 0.6, 0.5)
    per_trace = max(r1.generated / float(probe_num * workers), 1.0)
    num = int(min(max_num, (left - el * 0.4) * step_rate / per_trace / workers))
    if num >= probe_num:
        r2 = tlc(workdir, module, cfg=cfg, workers=workers, timeout=max(900, budget_s * 6), deadlock=False,
                 simulate="num=%d" % num, depth=depth, seed=seed + 1)
        out.append(r2)
    return out
