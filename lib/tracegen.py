"""Generated trace specifications for repository specs (DESIGN.md 4.5).

A run is a list of TLA+ state records (strings, as dumped by mpexec.System.DumpState) of a
PGo-generated spec <Spec>.tla. make_trace_module writes <Spec>Trace.tla which EXTENDS the
spec, embeds the runs as data and steps through them with the spec's own Next:

    TraceInit  == l = 1 /\\ Init /\\ Match(Trace[1].st)
    TraceStep  == ~Trace[l+1].rst /\\ l' = l+1 /\\ Next /\\ MatchP(Trace[l+1].st)
    TraceReset ==  Trace[l+1].rst /\\ l' = l+1 /\\ MatchP(Trace[l+1].st) /\\ Init'

The trace is accepted iff TLC reaches depth Len(Trace) without an invariant violation.
"""
import concurrent.futures
import os
import re
import shutil
import tempfile

import vcommon as V


def translation_region(text):
    m = re.search(r"\\\* BEGIN TRANSLATION.*?\n(.*?)\\\* END TRANSLATION", text, re.S)
    if not m:
        raise V.Inconclusive("no TLA+ translation found")
    return m.group(1)


def extract_vars(text):
    reg = translation_region(text)
    names = []
    for m in re.finditer(r"^VARIABLES?\s+(.*?)(?=^\S|\Z)", reg, re.S | re.M):
        body = re.sub(r"\(\*.*?\*\)", " ", m.group(1), flags=re.S)
        body = re.sub(r"\\\*.*", " ", body)
        for n in re.split(r"[\s,]+", body.strip()):
            if n and n not in names:
                names.append(n)
    return names


def extract_labels(text):
    """Labels of the translation: definitions `lbl(self) == /\\ pc[self] = "lbl"`."""
    reg = translation_region(text)
    return re.findall(r'^(\w+)\(self\) == /\\ pc\[self\] = "\1"', reg, re.M)


def make_trace_module(spec, variables, runs, extra_defs="", extends_extra="", use_next="Next", use_init="Init",
                      reset_extra="", labels=None, conform=True, hist_step=""):
    """conform=True: every step must be a step of the spec (use_next, or the logged action when labels
    are given). conform=False: P-level mode -- the recorded states are taken as they are (no Next), only
    invariants / action properties are evaluated on them; hist_step (an action over vars, vars' and history
    variables) then defines how history variables evolve.
    runs: list of runs; a run is a list of state strings (first = initial state, the rest
    successive steps) or of tuples (kind, ref, state) with kind 'i' (initial state), 's' (step from
    the previous record) or 'j' (jump to a state that already occurs at position ref of the same
    run, 0-based; ref must precede the record). Returns module text of <spec>Trace."""
    recs = []
    for r in runs:
        base = len(recs)
        for i, st in enumerate(r):
            pl = ""
            if isinstance(st, str):
                kind, ref, sts = ("i" if i == 0 else "s"), 0, st
            elif isinstance(st, dict):
                # {"state": ..., "proc": "3", "label": "serverLoop"}: step by a known process/label
                kind, ref, sts = ("i" if i == 0 else "s"), 0, st["state"]
                if labels and i > 0 and st.get("label") in labels:
                    pl = ', p |-> %s, lb |-> "%s"' % (st["proc"], st["label"])
                    kind = "a"
            else:
                # (kind, ref, state[, proc, label]); a jump ('j') carries no state: it returns to the state of record ref
                kind, ref, sts = st[0], st[1], st[2]
                ref = base + ref + 1
                if kind == "j":
                    recs.append('[k |-> "j", r |-> %d]' % ref)
                    continue
                if len(st) >= 5 and labels and st[4] in labels:
                    pl = ', p |-> %s, lb |-> "%s"' % (st[3], st[4])
                    kind = "a"
            recs.append('[k |-> "%s", r |-> %d, st |-> %s%s]' % (kind, ref, sts, pl))
    hs = (" /\\ " + hist_step) if hist_step else ""
    if not conform:
        use_next = "TRUE"
        act = 'TraceAct == ZK("a") /\\ ZMatchP(ZTrace[l + 1].st)' + hs
    elif labels:
        act = "ZAct(zp, zl) ==\n" + "\n".join('    \\/ (zl = "%s" /\\ %s(zp))' % (lb, lb) for lb in labels)
        act += '\nTraceAct == ZK("a") /\\ ZMatchP(ZTrace[l + 1].st) /\\ ZAct(ZTrace[l + 1].p, ZTrace[l + 1].lb)'
        if use_next != "Next":
            act += " /\\ " + use_next
    else:
        act = "TraceAct == FALSE /\\ UNCHANGED zTraceVars"
    match = " /\\ ".join("%s = zst.%s" % (v, v) for v in variables)
    matchp = " /\\ ".join("%s' = zst.%s" % (v, v) for v in variables)
    return """---- MODULE %(spec)sTrace ----
EXTENDS %(spec)s%(ext)s
VARIABLE l
zTraceVars == <<vars, l>>
ZTrace == <<
%(data)s
>>
ZMatch(zst) == %(match)s
ZMatchP(zst) == %(matchp)s
ZK(zk) == l < Len(ZTrace) /\\ ZTrace[l + 1].k = zk /\\ l' = l + 1
TraceInit == l = 1 /\\ %(init)s /\\ ZMatch(ZTrace[1].st)
TraceStep == ZK("s") /\\ ZMatchP(ZTrace[l + 1].st) /\\ %(next)s%(hs)s
%(act)s
TraceReset == ZK("i") /\\ ZMatchP(ZTrace[l + 1].st) %(rx)s /\\ (%(init)s)'
TraceJump == ZK("j") /\\ ZTrace[l + 1].r <= l /\\ ZMatchP(ZTrace[ZTrace[l + 1].r].st)%(hsj)s
TraceNext == TraceStep \\/ TraceAct \\/ TraceReset \\/ TraceJump
%(extra)s
====
""" % {"spec": spec, "ext": extends_extra, "data": ",\n".join(recs), "match": match, "matchp": matchp,
       "extra": extra_defs, "next": use_next, "init": use_init, "rx": reset_extra, "act": act,
       "hs": hs if not conform else "", "hsj": ""}


def make_cfg(constants, invariants, properties=(), action_constraints=()):
    lines = ["INIT TraceInit", "NEXT TraceNext", "CHECK_DEADLOCK FALSE", "CONSTANTS"]
    for k, v in constants.items():
        lines.append("  %s = %s" % (k, v))
    for i in invariants:
        lines.append("INVARIANT " + i)
    for p in properties:
        lines.append("PROPERTY " + p)
    for a in action_constraints:
        lines.append("ACTION_CONSTRAINT " + a)
    return "\n".join(lines) + "\n"


def _validate_once(specdir, spec, variables, runs, cfgtext, extra_defs, extends_extra, timeout, use_next,
                   use_init="Init", reset_extra="", labels=None, conform=True, hist_step=""):
    work = tempfile.mkdtemp(prefix="tv.", dir=os.path.dirname(specdir))
    V.copy_specs(specdir, work)
    with open(os.path.join(work, spec + "Trace.tla"), "w") as f:
        f.write(make_trace_module(spec, variables, runs, extra_defs, extends_extra, use_next, use_init, reset_extra, labels,
                                  conform, hist_step))
    with open(os.path.join(work, spec + "Trace.cfg"), "w") as f:
        f.write(cfgtext)
    res = V.tlc(work, spec + "Trace", cfg=spec + "Trace.cfg", workers=1, timeout=timeout, deadlock=False)
    shutil.rmtree(work, ignore_errors=True)
    return res


def validate_runs(specdir, spec, variables, runs, constants, invariants, properties=(), extra_defs="",
                  extends_extra="", timeout=900, chunks=1, max_rounds=6, use_next="Next", use_init="Init",
                  reset_extra="", labels=None, conform=True, hist_step=""):
    """Validate runs (list of list of state strings; each run starts in an initial state).
    Returns dict(accepted, rejected=[dict(run_index, kind, text, state_index)], states, transitions, errors)."""
    out = {"accepted": 0, "rejected": [], "states": 0, "transitions": 0, "errors": []}
    idx = [i for i, r in enumerate(runs) if r]
    if not idx:
        return out
    cfgtext = make_cfg(constants, invariants, properties)
    # every chunk is one TLC process (JVM start + parsing the spec): use several only when there is enough to validate
    total_bytes = sum(len(x if isinstance(x, str) else str(x)) for i in idx for x in runs[i])
    chunks = max(1, min(chunks, len(idx), 1 + total_bytes // 1500000))
    parts = [idx[i::chunks] for i in range(chunks)]

    def work(part):
        acc, rej, st, tr, errs = 0, [], 0, 0, []
        part = list(part)
        rounds = 0
        while part and rounds < max_rounds:
            rounds += 1
            rr = [runs[i] for i in part]
            total = sum(len(r) for r in rr)
            res = _validate_once(specdir, spec, variables, rr, cfgtext, extra_defs, extends_extra, timeout, use_next,
                                 use_init, reset_extra, labels, conform, hist_step)
            st += res.distinct
            tr += res.generated
            if res.timed_out or res.error:
                errs.append((res.error or "timeout") + " :: " + res.out[-1500:])
                break
            if res.violation:
                m = re.findall(r"^/\\ l = (\d+)", res.out, re.M)
                pos = int(m[-1]) if m else 1
                kind = "invariant"
            elif res.depth < total:
                pos = res.depth + 1  # the state that could not be matched
                kind = "stuck"
            else:
                acc += len(part)
                part = []   # all consumed (otherwise an acceptance in the last allowed round is reported as "runs left unchecked")
                break
            n = 0
            hit = len(part) - 1
            for j, r in enumerate(rr):
                if pos <= n + len(r):
                    hit = j
                    break
                n += len(r)
            rej.append({"run_index": part[hit], "kind": kind, "state_index": pos - n,
                        "text": res.violation or "step not allowed by the specification's Next"})
            acc += hit
            part = part[hit + 1:]
        if part and rounds >= max_rounds:
            errs.append("more than %d rejected runs in one chunk; %d runs left unchecked" % (max_rounds, len(part)))
        return acc, rej, st, tr, errs

    with concurrent.futures.ThreadPoolExecutor(max_workers=chunks) as ex:
        for acc, rej, st, tr, errs in ex.map(work, parts):
            out["accepted"] += acc
            out["rejected"] += rej
            out["states"] += st
            out["transitions"] += tr
            out["errors"] += errs
    return out


def load_steps(path):
    """Parse sysdrv output into runs: list of dict(meta, states=[...], lines=[...], errors=[...])."""
    runs = []
    cur = None
    for ln in V.read_jsonl(path):
        if ln["e"] == "case":
            cur = {"meta": ln, "states": [], "lines": [], "errors": []}
            runs.append(cur)
        elif cur is None:
            continue
        elif ln["e"] == "step":
            cur["states"].append(ln["state"])
            cur["lines"].append(ln)
        elif ln["e"] == "error":
            cur["errors"].append(ln)
            cur["lines"].append(ln)
        else:
            cur["lines"].append(ln)
    return runs


def load_graph(path):
    """Parse sysdrv -policy bfs output: returns dict(states={id: text}, edges=[(from, to, line)], errors, summary)."""
    g = {"states": {}, "edges": [], "errors": [], "summary": None, "tree": {}}
    for ln in V.read_jsonl(path):
        e = ln.get("e")
        if e == "g-init":
            g["states"][ln["id"]] = ln["state"]
        elif e == "g-edge":
            g["states"].setdefault(ln["to"], ln["state"])
            g["edges"].append((ln["from"], ln["to"], ln))
            if ln.get("new"):
                g["tree"][ln["to"]] = ln["from"]
        elif e == "g-error" or e == "error":
            g["errors"].append(ln)
        elif e == "g-summary":
            g["summary"] = ln
    return g


def graph_walks(g, maxlen=400):
    """Walks from the initial state that together cover every edge of the explored graph."""
    out_edges = {}
    for (u, v, _) in g["edges"]:
        out_edges.setdefault(u, []).append(v)
    uncovered = {(u, v) for (u, v, _) in g["edges"]}

    def tree_path(u):
        p = [u]
        while p[-1] != 0:
            p.append(g["tree"][p[-1]])
        return list(reversed(p))

    walks = []
    pending = sorted(uncovered)
    pi = 0
    while uncovered:
        while pending[pi] not in uncovered:
            pi += 1
        u, v = pending[pi]
        path = tree_path(u)
        for a, b in zip(path, path[1:]):
            uncovered.discard((a, b))
        cur = u
        while len(path) < maxlen:
            nxt = [w for w in out_edges.get(cur, []) if (cur, w) in uncovered]
            if not nxt:
                break
            w = nxt[0]
            uncovered.discard((cur, w))
            path.append(w)
            cur = w
        walks.append([g["states"][i] for i in path])
    return walks


def dot_counts(dotfile, exclude_labels=("Terminating",)):
    """Distinct nodes and distinct (from,to) edges of a TLC -dump dot,actionlabels file."""
    nodes, edges = set(), set()
    with open(dotfile) as f:
        for line in f:
            m = re.match(r"^(-?\d+) -> (-?\d+) \[label=\"([^\"]*)\"", line)
            if m:
                if m.group(3) in exclude_labels:
                    continue
                edges.add((m.group(1), m.group(2)))
                continue
            m = re.match(r"^(-?\d+) \[label=", line)
            if m:
                nodes.add(m.group(1))
    return len(nodes), len(edges)


def parse_tlc_states(text):
    """States of a TLC behaviour (simulation file `STATE_k ==` blocks or the `State k: <...>` blocks of
    a counterexample) as TLA+ record texts `[v1 |-> e1, ...]`, with the action header of each."""
    out = []
    blocks = re.split(r"^(?:STATE_\d+ ==|State \d+: .*)[ \t]*$", text, flags=re.M)
    heads = re.findall(r"^(?:\\\* (<.*>)\nSTATE_\d+ ==|State \d+: (.*))[ \t]*$", text, flags=re.M)
    for bi, b in enumerate(blocks[1:]):
        # a block ends at the first blank line followed by something that is not a conjunct
        lines = []
        for ln in b.split("\n"):
            if ln.startswith("/\\ ") or (lines and ln.startswith(" ")) or (lines and ln.strip() == "" and False):
                lines.append(ln)
            elif lines and ln.strip() == "":
                break
            elif not lines and ln.strip() == "":
                continue
            elif lines:
                break
        body = "\n".join(lines)
        parts = re.split(r"^/\\ ", body, flags=re.M)[1:]
        fields = []
        for p in parts:
            name, val = p.split(" = ", 1)
            fields.append("%s |-> %s" % (name.strip(), " ".join(val.split())))
        if fields:
            h = heads[bi] if bi < len(heads) else ("", "")
            out.append({"state": "[" + ", ".join(fields) + "]", "action": h[0] or h[1]})
    return out


def simulate_behaviours(workdir, module, cfg, num, depth, seed, timeout=600, prefix="simb"):
    """Run TLC in simulation mode writing behaviours to files; returns (TLCResult, [behaviour]) where a
    behaviour is the list produced by parse_tlc_states."""
    d = os.path.join(workdir, prefix)
    os.makedirs(d, exist_ok=True)
    res = V.tlc(workdir, module, cfg=cfg, workers=1, timeout=timeout, deadlock=False,
                simulate="file=%s/b,num=%d" % (prefix, num), depth=depth, seed=seed)
    behs = []
    for f in sorted(os.listdir(d)):
        behs.append(parse_tlc_states(open(os.path.join(d, f)).read()))
    return res, behs


# --------------------------------------------------------------------------- walks with successor fan-out (diff-encoded)
# sysdrv -policy walk-<p> writes a walk of the fresh-context executor: "step" lines (full state + the
# variables the step changed, "d") and "succ" lines (another committed successor of the state at step
# index "run": changed variables "d", their previous values "u"). Only the first state of a piece is
# embedded in full; every other record carries the changed variables only, and a successor is followed
# by an undo record that restores them, so tens of thousands of edges fit into one TLC run.

def _rec_text(d):
    return "[" + ", ".join("%s |-> %s" % (k, v) for k, v in sorted(d.items())) + "]" if d else "[zznone |-> 0]"


def make_walk_module(spec, variables, recs, labels, require_init, conform=True):
    """recs: list of dicts: {"k": "i", "st": text} | {"k": "a"/"s", "p": proc, "lb": label, "d": {var: text}} | {"k": "u", "d": {...}}"""
    out = []
    for r in recs:
        if r["k"] == "i":
            out.append('[k |-> "i", st |-> %s]' % r["st"])
        elif r["k"] == "u":
            out.append('[k |-> "u", d |-> %s]' % _rec_text(r["d"]))
        elif r.get("lb") in labels and r.get("p") not in (None, ""):
            out.append('[k |-> "a", p |-> %s, lb |-> "%s", d |-> %s]' % (r["p"], r["lb"], _rec_text(r["d"])))
        else:
            out.append('[k |-> "s", d |-> %s]' % _rec_text(r["d"]))
    match = " /\\ ".join("%s = zst.%s" % (v, v) for v in variables)
    apply_ = " /\\ ".join('%s\' = (IF "%s" \\in DOMAIN zd THEN zd.%s ELSE %s)' % (v, v, v, v) for v in variables)
    act = "ZAct(zp, zl) ==\n" + ("\n".join('    \\/ (zl = "%s" /\\ %s(zp))' % (lb, lb) for lb in labels) if labels else "    FALSE")
    return """---- MODULE %(spec)sWalk ----
EXTENDS %(spec)s
VARIABLE l
zTraceVars == <<vars, l>>
ZTrace == <<
%(data)s
>>
ZMatch(zst) == %(match)s
ZApply(zd) == %(apply)s
ZK(zk) == l < Len(ZTrace) /\\ ZTrace[l + 1].k = zk /\\ l' = l + 1
TraceInit == l = 1 /\\ ZMatch(ZTrace[1].st)%(init)s
%(act)s
TraceAct == ZK("a") /\\ ZApply(ZTrace[l + 1].d)%(zact)s
TraceStep == ZK("s") /\\ ZApply(ZTrace[l + 1].d)%(znext)s
TraceUndo == ZK("u") /\\ ZApply(ZTrace[l + 1].d)
TraceNext == TraceAct \\/ TraceStep \\/ TraceUndo
====
""" % {"spec": spec, "data": ",\n".join(out), "match": match, "apply": apply_, "act": act,
       "init": " /\\ Init" if (require_init and conform) else "",
       "zact": " /\\ ZAct(ZTrace[l + 1].p, ZTrace[l + 1].lb)" if conform else "", "znext": " /\\ Next" if conform else ""}


def validate_walk_pieces(specdir, spec, variables, pieces, constants, labels, timeout=1800, par=8, conform=True, invariants=()):
    """pieces: list of dict(recs=[...], init=bool). Each piece is one TLC job. Returns list of results
    dict(ok, stuck_at (0-based record index or None), states, generated, error)."""
    cfgtext = "INIT TraceInit\nNEXT TraceNext\nCHECK_DEADLOCK FALSE\nCONSTANTS\n" + "".join("  %s = %s\n" % kv for kv in constants.items())
    cfgtext += "".join("INVARIANT %s\n" % i for i in invariants)

    def work(pc):
        w = tempfile.mkdtemp(prefix="wk.", dir=os.path.dirname(specdir))
        V.copy_specs(specdir, w)
        with open(os.path.join(w, spec + "Walk.tla"), "w") as f:
            f.write(make_walk_module(spec, variables, pc["recs"], labels, pc.get("init", False), conform))
        with open(os.path.join(w, spec + "Walk.cfg"), "w") as f:
            f.write(cfgtext)
        res = V.tlc(w, spec + "Walk", cfg=spec + "Walk.cfg", workers=1, timeout=timeout, deadlock=False)
        shutil.rmtree(w, ignore_errors=True)
        r = {"ok": False, "stuck_at": None, "states": res.distinct, "generated": res.generated, "error": None, "violation": None, "violated_at": None}
        if res.timed_out or res.error:
            r["error"] = (res.error or "timeout") + " :: " + res.out[-1200:]
        elif res.violation and invariants:
            # the state that violates the invariant is the one reached by record l-1 (0-based: l - 1)
            m = re.findall(r"^/\\ l = (\d+)", res.out, re.M)
            r["violation"] = res.violation
            r["violated_at"] = (int(m[-1]) - 1) if m else 0
        elif res.violation:
            r["error"] = "unexpected violation: " + res.violation
        elif res.depth < len(pc["recs"]):
            r["stuck_at"] = res.depth  # 0-based index of the record that could not be taken
        else:
            r["ok"] = True
        return r

    with concurrent.futures.ThreadPoolExecutor(max_workers=max(1, min(par, len(pieces)))) as ex:
        return list(ex.map(work, pieces))
