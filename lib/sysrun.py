"""Shared steps of the checks that execute PGo-generated systems (C02, C08, C09, C14, C15, C16):
run harness/cmd/sysdrv with some policy, validate the recorded executions with TLC against the
repository's own specification, and turn rejections into verdicts."""
import json
import os

import tracegen as T
import vcommon as V


def drive(chk, drv, system, n, policy, runs, max_steps, args="", seed=None, trace=None, timeout=1500, tag=""):
    out = os.path.join(chk.tmp, "%s-%s-n%d%s.ndjson" % (system, policy, n, tag))
    cmd = [drv, "-system", system, "-n", str(n), "-policy", policy, "-runs", str(runs), "-max-steps", str(max_steps),
           "-seed", str(chk.seed if seed is None else seed), "-out", out]
    if args:
        cmd += ["-args", args]
    if trace:
        cmd += ["-trace", trace]
    rc, o = V.run(cmd, timeout=timeout)
    if rc != 0:
        raise V.Inconclusive("sysdrv %s %s n=%d failed (rc=%s): %s" % (system, policy, n, rc, o[-2000:]))
    return out


def schedule_of(run, limit=40):
    return [(l.get("proc"), l.get("label")) for l in run["lines"] if l["e"] == "step"][:limit]


def validate_executions(chk, pid, work, spec, text, runs, consts, invariants, properties=(), what="", chunks=4,
                        timeout=1500, by_action=True, go_error_is_violation=True, **kw):
    """runs: output of tracegen.load_steps. Every run is validated as a behaviour of <spec> (each step must
    be a step of the spec's Next -- by the logged process/label when by_action -- and every invariant
    must hold in every state). Go-side errors (assertion failures, panics of generated code) are violations."""
    variables = T.extract_vars(text)
    labels = T.extract_labels(text) if by_action else None
    data = []
    for r in runs:
        if go_error_is_violation:
            for e in r["errors"]:
                chk.violation("%s:go-error:%s:%s" % (pid, what, e.get("label")),
                              "generated code failed during an execution (%s): %s" % (what, e.get("msg")),
                              {"what": what, "meta": r["meta"], "error": e, "schedule": schedule_of(r, 400)})
        if by_action:
            data.append([{"state": l["state"], "proc": l.get("proc"), "label": l.get("label")} for l in r["lines"] if l["e"] == "step"])
        else:
            data.append(list(r["states"]))
    res = T.validate_runs(work, spec, variables, data, consts, list(invariants), list(properties), chunks=chunks,
                          timeout=timeout, labels=labels, **kw)
    chk.states += res["states"]
    chk.transitions += res["transitions"]
    chk.traces += res["accepted"]
    for e in res["errors"]:
        chk.inconclusive.append("trace validation (%s): %s" % (what, e[-700:]))
    for rj in res["rejected"]:
        r = runs[rj["run_index"]]
        name = "step-not-in-spec" if rj["kind"] == "stuck" else next((i for i in list(invariants) + list(properties) if i in rj["text"]), "property")
        steps = [l for l in r["lines"] if l["e"] == "step"]
        at = steps[rj["state_index"] - 1] if 0 < rj["state_index"] <= len(steps) else {}
        chk.violation("%s:%s:%s:%s" % (pid, name, what, at.get("label")),
                      "%s: %s at state %d (process %s, label %s) of a real-code execution" % (
                          what, rj["text"], rj["state_index"], at.get("proc"), at.get("label")),
                      {"what": what, "meta": r["meta"], "tlc": rj["text"], "state_index": rj["state_index"],
                       "schedule": schedule_of(r, rj["state_index"] + 1), "choices_at_failure": at.get("choices"),
                       "state": at.get("state")})
    return res


def guided(chk, pid, drv, work, system, n, args, behaviours, what, max_report=3, as_violation=True):
    """S->I: replay TLC behaviours (lists from tracegen.parse_tlc_states) through the generated code.
    A behaviour the Go cannot follow is a conformance violation (reported under pid)."""
    tf = os.path.join(chk.tmp, "guided-%s-n%d.ndjson" % (system, n))
    with open(tf, "w") as f:
        for i, b in enumerate(behaviours):
            f.write(json.dumps({"id": "b%d" % i, "states": [x["state"] for x in b]}) + "\n")
    out = drive(chk, drv, system, n, "guided", 0, 0, args=args, trace=tf, tag="-g")
    runs = []
    cur = None
    div = 0
    for ln in V.read_jsonl(out):
        if ln["e"] == "case":
            cur = {"meta": ln, "steps": 0, "diverge": None}
            runs.append(cur)
        elif ln["e"] == "step":
            cur["steps"] += 1
        elif ln["e"] in ("diverge", "error"):
            cur["diverge"] = ln
    followed = sum(1 for r in runs if not r["diverge"])
    for r in runs:
        if r["diverge"] and div < max_report:
            div += 1
            b = behaviours[int(r["meta"]["msg"][1:])]
            k = r["steps"]
            if not as_violation:
                chk.drift.append({"what": what, "cannot_follow": b[k]["action"] if k < len(b) else "?", "msg": r["diverge"].get("msg", "")[:300]})
                continue
            chk.violation("%s:cannot-follow-spec:%s:%s" % (pid, what, (b[k]["action"] if k < len(b) else "")[:60].split(" line")[0]),
                          "%s: the generated code cannot take the specification's step %s (step %d of a TLC behaviour): %s" % (
                              what, b[k]["action"] if k < len(b) else "?", k, r["diverge"].get("msg", "")[:300]),
                          {"what": what, "behaviour": [x["action"] for x in b[:k + 1]], "target_state": r["diverge"].get("state")})
    return followed, len(runs), out
