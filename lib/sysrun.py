"""Shared steps of the checks that execute PGo-generated systems (C02, C08, C09, C14, C15, C16):
run harness/cmd/sysdrv with some policy, validate the recorded executions with TLC against the
repository's own specification, and turn rejections into verdicts."""
import json
import os

import tracegen as T
import vcommon as V


def drive(chk, drv, system, n, policy, runs, max_steps, args="", seed=None, trace=None, timeout=1500, tag="", fanout=0, cont=None):
    out = os.path.join(chk.tmp, "%s-%s-n%d%s.ndjson" % (system, policy, n, tag))
    cmd = [drv, "-system", system, "-n", str(n), "-policy", policy, "-runs", str(runs), "-max-steps", str(max_steps),
           "-seed", str(chk.seed if seed is None else seed), "-out", out]
    if args:
        cmd += ["-args", args]
    if trace:
        cmd += ["-trace", trace]
    if fanout:
        cmd += ["-fanout", str(fanout)]
    if cont:
        cmd += ["-cont", json.dumps(cont)]
    rc, o = V.run(cmd, timeout=timeout)
    if rc != 0:
        raise V.Inconclusive("sysdrv %s %s n=%d failed (rc=%s): %s" % (system, policy, n, rc, o[-2000:]))
    return out


def schedule_of(run, limit=40):
    return [(l.get("proc"), l.get("label")) for l in run["lines"] if l["e"] == "step"][:limit]


def validate_executions(chk, pid, work, spec, text, runs, consts, invariants, properties=(), what="", chunks=4,
                        timeout=1500, by_action=True, go_error_is_violation=True, conform=True, **kw):
    """conform=True (C02): every step must be a step of the spec. conform=False (P-level checks): the
    recorded real-code states are judged by the invariants / action properties only; a state TLC cannot
    take (e.g. an initial state that is not the spec's) is drift, not a violation.
    runs: output of tracegen.load_steps. Every run is validated as a behaviour of <spec> (each step must
    be a step of the spec's Next -- by the logged process/label when by_action -- and every invariant
    must hold in every state). Go-side errors (assertion failures, panics of generated code) are violations."""
    variables = T.extract_vars(text)
    labels = T.extract_labels(text) if by_action else None
    data = []
    for r in runs:
        if go_error_is_violation:
            for e in r["errors"]:
                chk.violation("%s:go-error:%s:%s" % (pid, what, e.get("label")),
                              "generated code failed during an execution (%s): %s" % (what, e.get("msg")),
                              {"what": what, "meta": r["meta"], "error": e, "schedule": schedule_of(r, 400)})
        if by_action:
            data.append([{"state": l["state"], "proc": l.get("proc"), "label": l.get("label")} for l in r["lines"] if l["e"] == "step"])
        else:
            data.append(list(r["states"]))
    res = T.validate_runs(work, spec, variables, data, consts, list(invariants), list(properties), chunks=chunks,
                          timeout=timeout, labels=labels, conform=conform, **kw)
    chk.states += res["states"]
    chk.transitions += res["transitions"]
    chk.traces += res["accepted"]
    for e in res["errors"]:
        chk.inconclusive.append("trace validation (%s): %s" % (what, e[-700:]))
    for rj in res["rejected"]:
        r = runs[rj["run_index"]]
        name = "step-not-in-spec" if rj["kind"] == "stuck" else next((i for i in list(invariants) + list(properties) if i in rj["text"]), "property")
        steps = [l for l in r["lines"] if l["e"] == "step"]
        at = steps[rj["state_index"] - 1] if 0 < rj["state_index"] <= len(steps) else {}
        if rj["kind"] == "stuck" and not conform:
            chk.drift.append({"what": what, "state_index": rj["state_index"], "label": at.get("label"), "text": rj["text"]})
            continue
        chk.violation("%s:%s:%s:%s" % (pid, name, what, at.get("label")),
                      "%s: %s at state %d (process %s, label %s) of a real-code execution" % (
                          what, rj["text"], rj["state_index"], at.get("proc"), at.get("label")),
                      {"what": what, "meta": r["meta"], "tlc": rj["text"], "state_index": rj["state_index"],
                       "schedule": schedule_of(r, rj["state_index"] + 1), "choices_at_failure": at.get("choices"),
                       "state": at.get("state")})
    return res


def fanout_conformance(chk, pid, work, module, text, out, consts, what, chunks=8, timeout=2400, max_edges=4000, piece=300):
    """Go edges are spec edges, from every state a TLC behaviour visits: sysdrv -policy guided -fanout K writes,
    for every state the generated code reached while following the behaviour, every other committed successor
    (all processes, all choice resolutions) as a "succ" line. TLC validates each as: jump back to the visited
    state, then the logged process/label's action of the specification leading to the successor."""
    variables = T.extract_vars(text)
    labels = T.extract_labels(text)
    runs, metas = [], []
    cur = None
    nsucc = 0
    for ln in V.read_jsonl(out):
        e = ln["e"]
        if e == "case":
            cur = {"steps": [], "succ": [], "meta": ln}
            runs.append(cur)
        elif cur is None:
            continue
        elif e == "step":
            cur["steps"].append(ln)
        elif e == "succ" and nsucc < max_edges:
            cur["succ"].append(ln)
            nsucc += 1
        elif e == "succ-error":
            pre = cur["steps"][ln.get("run", 0)]["state"] if cur["steps"] else None
            chk.violation("%s:%s:go-error:%s" % (pid, what.split()[0], ln.get("label")),
                          "%s: generated code failed (assertion / panic) from a state of a TLC behaviour at label %s: %s" % (what, ln.get("label"), ln.get("msg")),
                          {"what": what, "pre_state": pre, "proc": ln.get("proc"), "label": ln.get("label"), "choices": ln.get("choices"), "msg": ln.get("msg")})
    data, index = [], []
    pieces = []
    for r in runs:
        if not r["steps"] or not r["succ"]:
            continue
        # split the successors of one run into pieces (each piece re-walks the run's own steps up to the
        # last state it needs), so that TLC jobs can run side by side
        succ = sorted(r["succ"], key=lambda x: x.get("run", 0))
        for i in range(0, len(succ), piece):
            part = succ[i:i + piece]
            last = max(x.get("run", 0) for x in part)
            pieces.append({"steps": r["steps"][:last + 1] if i + piece < len(succ) else r["steps"], "succ": part, "meta": r["meta"]})
    for r in pieces:
        recs = [{"state": l["state"], "proc": l.get("proc"), "label": l.get("label")} for l in r["steps"]]
        back = [("step", i) for i in range(len(recs))]
        for sc in r["succ"]:
            at = sc.get("run", 0)
            recs.append(("j", at, ""))
            back.append(("jump", at))
            recs.append(("s", 0, sc["state"], sc.get("proc"), sc.get("label")))
            back.append(("succ", sc))
        data.append(recs)
        index.append((r, back))
    if not data:
        return {"edges": 0, "accepted": 0}
    res = T.validate_runs(work, module, variables, data, consts, [], [], chunks=min(chunks, len(data)), timeout=timeout, labels=labels, conform=True, max_rounds=4)
    chk.states += res["states"]; chk.transitions += res["transitions"]
    for e in res["errors"]:
        chk.inconclusive.append("fanout validation (%s): %s" % (what, e[-700:]))
    for rj in res["rejected"]:
        r, back = index[rj["run_index"]]
        k = rj["state_index"] - 1
        kind, ref = back[k] if 0 <= k < len(back) else ("?", None)
        if kind == "succ":
            sc = ref
            pre = r["steps"][sc.get("run", 0)]["state"]
            chk.violation("%s:%s:step-not-in-spec:fanout:%s" % (pid, what.split()[0], sc.get("label")),
                          "%s: from a state visited by a TLC behaviour the generated code commits a step at label %s (process %s) that is not the specification's step" % (what, sc.get("label"), sc.get("proc")),
                          {"what": what, "pre_state": pre, "post_state": sc["state"], "proc": sc.get("proc"), "label": sc.get("label"), "choices": sc.get("choices")})
        else:
            chk.drift.append({"what": what, "fanout_record": kind, "text": rj["text"]})
    return {"edges": nsucc, "accepted": res["accepted"], "rejected": len(res["rejected"])}


def _walk_pieces(chk, pid, out, what, piece):
    """Parse sysdrv -policy walk-* output into runs and diff-encoded pieces (see tracegen.make_walk_module)."""
    runs, cur = [], None
    for ln in V.read_jsonl(out):
        e = ln["e"]
        if e == "case":
            cur = {"steps": [], "succ": {}, "meta": ln}
            runs.append(cur)
        elif cur is None:
            continue
        elif e == "step":
            cur["steps"].append(ln)
        elif e == "succ":
            cur["succ"].setdefault(ln.get("run", 0), []).append(ln)
        elif e in ("succ-error", "error"):
            pre = cur["steps"][ln.get("run", 0)]["state"] if (e == "succ-error" and cur["steps"]) else (cur["steps"][-1]["state"] if cur["steps"] else None)
            chk.violation("%s:%s:go-error:%s" % (pid, what.split()[0], ln.get("label")),
                          "%s: generated code failed (assertion / panic) from a reachable state at label %s: %s" % (what, ln.get("label"), ln.get("msg")),
                          {"what": what, "pre_state": pre, "proc": ln.get("proc"), "label": ln.get("label"), "choices": ln.get("choices"), "msg": ln.get("msg")})
    # cut every walk into pieces of about `piece` records; a piece starts with the full state of a step
    pieces = []
    nedges = nsteps = 0
    for ri, r in enumerate(runs):
        steps = r["steps"]
        if not steps:
            continue
        i, skip_succ = 0, False
        while True:
            recs = [{"k": "i", "st": steps[i]["state"]}]
            back = [("init", ri, i, None)]
            first, j, finished = i, i, False
            while True:
                if not (j == first and skip_succ):
                    for sc in r["succ"].get(j, []):
                        recs.append({"k": "a", "p": sc.get("proc"), "lb": sc.get("label"), "d": sc.get("d") or {}})
                        back.append(("succ", ri, j, sc))
                        recs.append({"k": "u", "d": sc.get("u") or {}})
                        back.append(("undo", ri, j, sc))
                        nedges += 1
                if j + 1 >= len(steps):
                    finished = True
                    break
                if len(recs) >= piece:
                    break
                j += 1
                recs.append({"k": "a", "p": steps[j].get("proc"), "lb": steps[j].get("label"), "d": steps[j].get("d") or {}})
                back.append(("step", ri, j, steps[j]))
                nsteps += 1
            pieces.append({"recs": recs, "back": back, "init": first == 0})
            if finished:
                break
            i, skip_succ = j, True   # the next piece starts in the state this one ended in
    return runs, pieces, nedges, nsteps


def walk_conformance(chk, pid, work, module, text, out, consts, what, piece=2500, par=8, timeout=2400, max_rounds=3):
    """Validate sysdrv -policy walk-* output: every step of each walk and every sampled successor of every
    visited state must be the logged label's action of the specification (I->S, diff-encoded, see tracegen)."""
    variables = T.extract_vars(text)
    labels = T.extract_labels(text)
    runs, pieces, nedges, nsteps = _walk_pieces(chk, pid, out, what, piece)
    if not pieces:
        return {"edges": 0, "steps": 0, "pieces": 0}
    todo = list(range(len(pieces)))
    rejected = 0
    for _ in range(max_rounds):
        res = T.validate_walk_pieces(work, module, variables, [pieces[k] for k in todo], consts, labels, timeout=timeout, par=par)
        nxt = []
        for k, r in zip(todo, res):
            chk.states += r["states"]; chk.transitions += r["generated"]
            pc = pieces[k]
            if r["error"]:
                chk.inconclusive.append("walk validation (%s): %s" % (what, r["error"][-700:]))
            elif r["ok"]:
                continue
            else:
                j = r["stuck_at"]
                kind, ri, si, ln = pc["back"][j] if j is not None and j < len(pc["back"]) else ("?", 0, 0, None)
                if kind in ("succ", "step"):
                    rejected += 1
                    pre = runs[ri]["steps"][si if kind == "succ" else si - 1]["state"]
                    chk.violation("%s:%s:step-not-in-spec:%s:%s" % (pid, what.split()[0], "fanout" if kind == "succ" else "walk", ln.get("label")),
                                  "%s: from a reachable state the generated code commits a step at label %s (process %s) that is not the specification's step for that label" % (what, ln.get("label"), ln.get("proc")),
                                  {"what": what, "meta": runs[ri]["meta"], "pre_state": pre, "changed": ln.get("d"), "proc": ln.get("proc"), "label": ln.get("label"), "choices": ln.get("choices"), "step_index": si})
                    # drop the offending record (and its undo) and re-validate the rest of the piece
                    drop = 2 if kind == "succ" else len(pc["recs"]) - j
                    pc["recs"] = pc["recs"][:j] + pc["recs"][j + drop:]
                    pc["back"] = pc["back"][:j] + pc["back"][j + drop:]
                    if len(pc["recs"]) > 1:
                        nxt.append(k)
                else:
                    chk.drift.append({"what": what, "walk_record": kind, "note": "record not accepted"})
        todo = nxt
        if not todo:
            break
    chk.traces += len(runs)
    return {"edges": nedges, "steps": nsteps, "pieces": len(pieces), "rejected": rejected}


def walk_safety(chk, pid, work, module, variables, out, consts, invariants, what, piece=6000, par=8, timeout=2400, max_rounds=3):
    """P-level judgement of sysdrv -policy walk-* output: the recorded real-code states (every state of each walk and
    every committed successor of every visited state) are taken as they are; TLC evaluates `invariants` in each.
    Returns (stats, flagged) where flagged is a list of dict(invariant, kind 'step'|'succ', run, step, line, meta);
    turning a flagged state into a verdict is the caller's business."""
    runs, pieces, nedges, nsteps = _walk_pieces(chk, pid, out, what, piece)
    flagged = []
    if not pieces:
        return {"edges": 0, "steps": 0, "pieces": 0}, flagged
    todo = list(range(len(pieces)))
    for _ in range(max_rounds):
        res = T.validate_walk_pieces(work, module, variables, [pieces[k] for k in todo], consts, [], timeout=timeout, par=par,
                                     conform=False, invariants=invariants)
        nxt = []
        for k, r in zip(todo, res):
            chk.states += r["states"]; chk.transitions += r["generated"]
            pc = pieces[k]
            if r["error"]:
                chk.inconclusive.append("walk judgement (%s): %s" % (what, r["error"][-700:]))
            elif r["ok"]:
                continue
            elif r["violation"]:
                j = r["violated_at"]
                kind, ri, si, ln = pc["back"][j] if j is not None and j < len(pc["back"]) else ("?", 0, 0, None)
                inv = next((i for i in invariants if i in r["violation"]), "invariant")
                flagged.append({"invariant": inv, "tlc": r["violation"], "kind": kind, "run": ri, "step": si, "line": ln, "meta": runs[ri]["meta"],
                                "pre_state": runs[ri]["steps"][si]["state"] if kind == "succ" else (runs[ri]["steps"][si - 1]["state"] if si > 0 else None),
                                "state": runs[ri]["steps"][si]["state"] if kind in ("step", "init") else None})
                if kind == "succ":
                    pc["recs"] = pc["recs"][:j] + pc["recs"][j + 2:]
                    pc["back"] = pc["back"][:j] + pc["back"][j + 2:]
                    if len(pc["recs"]) > 1:
                        nxt.append(k)
                # a violated state of the walk itself: everything after it is reached through it; the piece ends here
            else:
                chk.drift.append({"what": what, "note": "walk piece not consumed completely", "stuck_at": r["stuck_at"]})
        todo = nxt
        if not todo:
            break
    chk.traces += len(runs)
    return {"edges": nedges, "steps": nsteps, "pieces": len(pieces), "flagged": len(flagged)}, flagged


def guided(chk, pid, drv, work, system, n, args, behaviours, what, max_report=3, as_violation=True, fanout=0):
    """S->I: replay TLC behaviours (lists from tracegen.parse_tlc_states) through the generated code.
    A behaviour the Go cannot follow is a conformance violation (reported under pid)."""
    tf = os.path.join(chk.tmp, "guided-%s-n%d.ndjson" % (system, n))
    with open(tf, "w") as f:
        for i, b in enumerate(behaviours):
            f.write(json.dumps({"id": "b%d" % i, "states": [x["state"] for x in b]}) + "\n")
    out = drive(chk, drv, system, n, "guided", 0, 0, args=args, trace=tf, tag="-g", fanout=fanout)
    runs = []
    cur = None
    div = 0
    for ln in V.read_jsonl(out):
        if ln["e"] == "case":
            cur = {"meta": ln, "steps": 0, "diverge": None}
            runs.append(cur)
        elif ln["e"] == "step":
            cur["steps"] += 1
        elif ln["e"] in ("diverge", "error"):
            cur["diverge"] = ln
    followed = sum(1 for r in runs if not r["diverge"])
    for r in runs:
        if r["diverge"] and div < max_report:
            div += 1
            b = behaviours[int(r["meta"]["msg"][1:])]
            k = r["steps"]
            if not as_violation:
                chk.drift.append({"what": what, "cannot_follow": b[k]["action"] if k < len(b) else "?", "msg": r["diverge"].get("msg", "")[:300]})
                continue
            chk.violation("%s:cannot-follow-spec:%s:%s" % (pid, what, (b[k]["action"] if k < len(b) else "")[:60].split(" line")[0]),
                          "%s: the generated code cannot take the specification's step %s (step %d of a TLC behaviour): %s" % (
                              what, b[k]["action"] if k < len(b) else "?", k, r["diverge"].get("msg", "")[:300]),
                          {"what": what, "behaviour": [x["action"] for x in b[:k + 1]], "target_state": r["diverge"].get("state")})
    return followed, len(runs), out


# ----------------------------------------------------------------------------- system tables

def load_tables():
    d = os.path.join(V.VERIF, "systems")
    out = []
    for f in sorted(os.listdir(d)):
        if f.endswith(".json"):
            out.append(json.load(open(os.path.join(d, f))))
    return out


def _args_dict(args):
    out = {}
    for kv in (args or "").split(","):
        if "=" in kv:
            k, v = kv.split("=", 1)
            out[k] = v
    return out


def subst_consts(table, n, args="", override=None):
    a = _args_dict(args)
    out = {}
    for k, v in table["consts"].items():
        v = v.replace("{n}", str(n))
        while "{arg:" in v:
            i = v.index("{arg:")
            j = v.index("}", i)
            parts = v[i + 5:j].split(":")
            val = a.get(parts[0], "0")
            if len(parts) == 3:  # {arg:name:TRUEVAL:FALSEVAL}
                val = parts[1] if val not in ("0", "") else parts[2]
            v = v[:i] + val + v[j + 1:]
        out[k] = v
    if override:
        out.update(override)
    return out


def prepare_spec(chk, table, work):
    """Copy the repository spec into work, applying the table's named rewrites (conformance only)."""
    import shutil
    src = os.path.join(V.REPO, table["spec"])   # an absolute path in the table (e.g. /verif/systems/specs/...) wins
    if not os.path.exists(src):
        raise V.Inconclusive("spec %s not found" % src)
    os.makedirs(work, exist_ok=True)
    dst = os.path.join(work, table.get("spec_as") or os.path.basename(src))
    text = open(src).read()
    for rw in table.get("spec_rewrites", []):
        if rw["from"] not in text:
            chk.gaps.append("%s: rewrite %r no longer applies" % (table["name"], rw["from"]))
        text = text.replace(rw["from"], rw["to"])
    # extra modules next to the spec that it EXTENDS (rare)
    for extra in table.get("extra_modules", []):
        shutil.copy(os.path.join(V.REPO, extra), work)
    open(dst, "w").write(text)
    if table.get("retranslate"):
        # the checked-in TLA+ translation is stale (reported separately by C02's translation check):
        # bind against pcal's translation of the checked-in PlusCal
        V.pcal(work, os.path.basename(dst))
        text = open(dst).read()
    return text


def conformance(chk, pid, table, drv, tier, do_guided=True):
    """C02 for one spec/Go pair: (a) complete graph of the generated code == TLC's graph of the spec
    (every Go edge a spec step, same number of states and edges); (b) seeded executions under the real
    Run loop, every step a step of the spec; (c) TLC behaviours followed by the generated code."""
    name = table["name"]
    work = os.path.join(chk.tmp, "spec-" + name)
    text = prepare_spec(chk, table, work)
    module = table["module"]
    variables = T.extract_vars(text)
    labels = T.extract_labels(text)
    stats = {"bfs": [], "random": [], "guided": []}
    for cfg in table.get("bfs", {}).get(tier, []):
        n = cfg["n"]
        args = cfg.get("args", "")
        cs = subst_consts(table, n, args, cfg.get("consts_override"))
        # TLC's own graph first: its size bounds the exploration of the Go's graph
        cfgname = "graph_n%d.cfg" % n
        open(os.path.join(work, cfgname), "w").write("CONSTANTS\n" + "".join("  %s = %s\n" % kv for kv in cs.items()) +
                                                      "INIT Init\nNEXT Next\nCHECK_DEADLOCK FALSE\n" +
                                                      ("CONSTRAINT %s\n" % cfg["constraint"] if cfg.get("constraint") else ""))
        dot = os.path.join(work, "graph_n%d.dot" % n)
        r2 = V.tlc(work, module, cfg=cfgname, workers=1, timeout=2400, deadlock=False, dump=dot)
        chk.add_tlc("%s state graph n=%d" % (name, n), r2)
        if not r2.ok:
            continue
        ns, ne = T.dot_counts(dot)
        out = drive(chk, drv, name, n, "bfs", 0, 2 * ns + 200, args=args, tag="-bfs")
        g = T.load_graph(out)
        for e in g["errors"]:
            chk.violation("%s:%s:go-error:%s" % (pid, name, e.get("label")),
                          "%s n=%d: generated code failed from a reachable state at label %s: %s" % (name, n, e.get("label"), e.get("msg")), e)
        walks = T.graph_walks(g)
        tot, keep = 0, []
        for w in walks:
            if tot + len(w) > max(20000, 6 * ne):
                break
            keep.append(w); tot += len(w)
        walks = keep
        res = T.validate_runs(work, module, variables, walks, cs, [], [], chunks=8, timeout=2400)
        chk.states += res["states"]; chk.transitions += res["transitions"]; chk.traces += res["accepted"]
        for e in res["errors"]:
            chk.inconclusive.append("%s bfs n=%d: %s" % (name, n, e[-600:]))
        for rj in res["rejected"]:
            w = walks[rj["run_index"]]
            chk.violation("%s:%s:step-not-in-spec:bfs" % (pid, name),
                          "%s n=%d: a committed step of the generated code is not a step of the specification (state %d of a walk of the Go state graph)" % (name, n, rj["state_index"]),
                          {"system": name, "n": n, "pre_state": w[rj["state_index"] - 2] if rj["state_index"] >= 2 else None,
                           "post_state": w[rj["state_index"] - 1] if rj["state_index"] <= len(w) else None})
        gs, ge = g["summary"]["states"], g["summary"]["edges"]
        stats["bfs"].append({"n": n, "tlc": [ns, ne], "go": [gs, ge], "walks": len(walks), "go_complete": g["summary"].get("complete")})
        if not res["rejected"] and ((ns, ne) != (gs, ge) or not g["summary"].get("complete")):
            chk.violation("%s:%s:graph-mismatch:n=%d" % (pid, name, n),
                          "%s n=%d: the generated code reaches %s%d states / %d transitions, the specification %d / %d" % (
                              name, n, "" if g["summary"].get("complete") else "more than ", gs, ge, ns, ne),
                          {"system": name, "n": n, "go": [gs, ge], "tlc": [ns, ne]})
        if walks:
            chk.sample({"system": name, "kind": "graph walk", "n": n, "first_states": walks[-1][:2]})
    for cfg in table.get("random", {}).get(tier, []):
        n, args = cfg["n"], cfg.get("args", "")
        out = drive(chk, drv, name, n, cfg.get("policy", "random"), cfg["runs"], cfg["steps"], args=args, tag="-rnd")
        rs = T.load_steps(out)
        r = validate_executions(chk, pid, work, module, text, rs, subst_consts(table, n, args, cfg.get("consts_override")), [], [],
                                what="%s n=%d" % (name, n), chunks=min(6, max(1, len(rs))), timeout=2400, conform=True)
        stats["random"].append({"n": n, "runs": len(rs), "accepted": r["accepted"], "states": sum(len(x["states"]) for x in rs)})
        if rs:
            chk.sample({"system": name, "kind": "execution under Run", "n": n, "seed": rs[0]["meta"].get("seed"), "schedule_prefix": schedule_of(rs[0], 10)})
    for cfg in table.get("walk", {}).get(tier, []):
        # seeded walks of the fresh-context executor; a label-balanced sample of ALL successors of every visited
        # state is validated by TLC (Go edges are spec edges, from states deep in the reachable space)
        n, args = cfg["n"], cfg.get("args", "")
        cs = subst_consts(table, n, args, cfg.get("consts_override"))
        out = drive(chk, drv, name, n, "walk-" + cfg.get("policy", "biased"), cfg["runs"], cfg["steps"], args=args, tag="-walk", fanout=cfg.get("edges", 1000))
        fo = walk_conformance(chk, pid, work, module, text, out, cs, "%s n=%d walk" % (name, n), piece=cfg.get("piece", 2500))
        stats.setdefault("walk", []).append(dict(fo, n=n, runs=cfg["runs"], steps=cfg["steps"]))
    if do_guided:
        for cfg in table.get("guided", {}).get(tier, []):
            n, args = cfg["n"], cfg.get("args", "")
            cs = subst_consts(table, n, args, cfg.get("consts_override"))
            cfgname = "sim_n%d.cfg" % n
            open(os.path.join(work, cfgname), "w").write("CONSTANTS\n" + "".join("  %s = %s\n" % kv for kv in cs.items()) +
                                                          "INIT Init\nNEXT Next\nCHECK_DEADLOCK FALSE\n" +
                                                          ("CONSTRAINT %s\n" % cfg["constraint"] if cfg.get("constraint") else ""))
            res, behs = T.simulate_behaviours(work, module, cfgname, cfg["num"], cfg["depth"], chk.seed, timeout=1500, prefix="sim%d" % n)
            chk.add_tlc("%s simulation behaviours n=%d" % (name, n), res)
            behs = [b for b in behs if b]
            if behs:
                followed, total, gout = guided(chk, pid, drv, work, name, n, args, behs, "%s n=%d" % (name, n), fanout=cfg.get("fanout", 0))
                chk.traces += followed
                fo = fanout_conformance(chk, pid, work, module, text, gout, cs, "%s n=%d" % (name, n), max_edges=cfg.get("max_edges", 3000)) if cfg.get("fanout", 0) else None
                stats["guided"].append({"n": n, "followed": followed, "total": total, "fanout": fo})
    return stats


# ----------------------------------------------------------------------------- client histories (C09, C14)

def histories_from_steps(path):
    """Client histories from sysdrv step lines carrying "obs" events ({"op":"inv"|"ret", "client", ...}).
    Stamps are positions in the global commit order of the execution."""
    out, cur, step = [], None, 0
    for d in V.read_jsonl(path):
        if d["e"] == "case":
            cur = {"meta": d, "ops": [], "open": {}, "anomalies": []}
            out.append(cur)
            step = 0
        elif cur is not None and d["e"] == "step":
            step += 1
            o = d.get("obs")
            if not o:
                continue
            if o["op"] == "inv":
                op = {"c": str(o["client"]), "kind": o["kind"], "key": o["key"], "val": o.get("val", ""), "inv": step, "ret": 0,
                      "ok": False, "rval": "", "idx": str(o.get("idx", ""))}
                cur["ops"].append(op)
                cur["open"][str(o["client"])] = op
            elif o["op"] == "ret":
                op = cur["open"].pop(str(o["client"]), None)
                if op is None:
                    cur["anomalies"].append({"step": step, "event": o, "what": "response without a pending operation"})
                    continue
                op["ret"] = step
                op["ok"] = bool(o.get("ok"))
                op["rval"] = o.get("rval", "") if op["ok"] else ""
                if str(o.get("key", op["key"])) != op["key"]:
                    cur["anomalies"].append({"step": step, "event": o, "what": "response for another key than requested"})
    for h in out:
        h.pop("open", None)
    return out


def check_linearizable(chk, specdir, hists, chunks=4, timeout=900):
    """Each history is judged by TLC on spec/C09/KVLin.tla. Returns list of indices of histories that are
    NOT linearizable (search exhausted)."""
    import concurrent.futures, shutil, tempfile, re
    idx = [i for i, h in enumerate(hists) if h["ops"]]
    bad = []
    if not idx:
        return bad
    chunks = max(1, min(chunks, len(idx)))
    parts = [idx[i::chunks] for i in range(chunks)]

    def work(part):
        res_bad, st, tr, errs, okc = [], 0, 0, [], 0
        part = list(part)
        while part:
            w = tempfile.mkdtemp(prefix="lin.", dir=chk.tmp)
            V.copy_specs(specdir, w, names=["KVLin.tla", "KVLin.cfg"])
            with open(os.path.join(w, "hist.ndjson"), "w") as f:
                for i in part:
                    f.write(json.dumps({"ops": hists[i]["ops"]}) + "\n")
            r = V.tlc(w, "KVLin", cfg="KVLin.cfg", workers=1, timeout=timeout, deadlock=False,
                      jvm=["-Dtlc2.tool.queue.IStateQueue=StateDeque"])
            shutil.rmtree(w, ignore_errors=True)
            st += r.distinct; tr += r.generated
            if r.timed_out or (r.error and not r.violation):
                errs.append(r.error or "timeout")
                break
            done = [int(x) for x in re.findall(r'<<"LINEARIZABLE", (\d+)>>', r.out)]
            k = max(done) if done else 0
            if r.violation and "NotAllLinearized" in r.violation:
                okc += len(part)
                break
            # history k+1 of this part could not be linearized
            res_bad.append(part[k])
            okc += k
            part = part[k + 1:]
        return res_bad, st, tr, errs, okc

    with concurrent.futures.ThreadPoolExecutor(max_workers=chunks) as ex:
        for res_bad, st, tr, errs, okc in ex.map(work, parts):
            bad += res_bad
            chk.states += st; chk.transitions += tr; chk.traces += okc
            for e in errs:
                chk.inconclusive.append("KVLin: " + str(e)[:400])
    return bad


def safety(chk, pid, table, drv, tier, extra_invariants=(), extra_module=None, hist_step="", use_init="Init", reset_extra=""):
    """P-level check of one generated system: (1) TLC on the shipped spec with its invariants on the
    table's small instances (design level); (2) the complete state graph reached by the generated code
    and (3) seeded executions under the real Run loop: the spec's invariants / action properties are
    evaluated by TLC in every real-code state (conformance of the steps is C02's business: here a state
    TLC cannot take is drift). Go-side failures (assertion failures, panics of generated code) are violations.
    extra_module: a module EXTENDING the spec (e.g. <Sys>Obs with history variables), copied from spec/<pid>."""
    name = table["name"]
    work = os.path.join(chk.tmp, "safety-" + name)
    text = prepare_spec(chk, table, work)
    module = table["module"]
    variables = T.extract_vars(text)
    invs = list(table.get("invariants", [])) + list(extra_invariants)
    props = list(table.get("properties", []))
    vmodule = module
    if extra_module:
        V.copy_specs(os.path.join(V.SPEC, pid), work, names=[extra_module + ".tla"])
        vmodule = extra_module
    inv_args = table.get("invariant_args", "")
    stats = {"design": [], "bfs": [], "random": []}

    def with_inv_args(args):
        if not inv_args:
            return args
        d = _args_dict(args)
        d.update(_args_dict(inv_args))
        return ",".join("%s=%s" % kv for kv in d.items())

    # (1) design level
    for cfg in table.get("design", {}).get(tier, table.get("bfs", {}).get(tier, [])):
        n = cfg["n"]
        args = with_inv_args(cfg.get("args", ""))
        cs = subst_consts(table, n, args, cfg.get("consts_override"))
        cfgname = "design_n%d.cfg" % n
        body = "CONSTANTS\n" + "".join("  %s = %s\n" % kv for kv in cs.items())
        body += "INIT %s\nNEXT %s\nCHECK_DEADLOCK FALSE\n" % (use_init if extra_module else "Init", ("HNext" if (extra_module and hist_step) else "Next"))
        for i in invs:
            body += "INVARIANT %s\n" % i
        for p in props:
            body += "PROPERTY %s\n" % p
        if cfg.get("constraint"):
            body += "CONSTRAINT %s\n" % cfg["constraint"]
        open(os.path.join(work, cfgname), "w").write(body)
        if cfg.get("mode") == "simulate":
            for i, r in enumerate(V.tlc_simulate_budget(work, vmodule, cfgname, cfg.get("budget", 60), cfg.get("depth", 100), chk.seed, workers=8)):
                chk.add_tlc("%s design n=%d simulation (%s)" % (name, n, "probe" if i == 0 else "main"), r)
        else:
            r = V.tlc(work, vmodule, cfg=cfgname, workers=cfg.get("workers", 8), timeout=cfg.get("timeout", 1500), deadlock=False)
            chk.add_tlc("%s design n=%d exhaustive %s" % (name, n, invs + props), r)
            stats["design"].append({"n": n, "distinct": r.distinct, "ok": r.ok})
    kw = dict(conform=False, hist_step=hist_step, use_init=use_init, reset_extra=reset_extra)

    def judge(runs_or_walks, metas, cs, what):
        res = T.validate_runs(work, vmodule, variables, runs_or_walks, cs, invs, props, chunks=8, timeout=2400, **kw)
        chk.states += res["states"]; chk.transitions += res["transitions"]; chk.traces += res["accepted"]
        for e in res["errors"]:
            chk.inconclusive.append("%s %s: %s" % (name, what, e[-600:]))
        for rj in res["rejected"]:
            if rj["kind"] == "stuck":
                chk.drift.append({"system": name, "what": what, "state_index": rj["state_index"], "text": rj["text"]})
                continue
            inv = next((i for i in invs + props if i in rj["text"]), "property")
            run = runs_or_walks[rj["run_index"]]
            st = run[rj["state_index"] - 1] if rj["state_index"] <= len(run) else None
            chk.violation("%s:%s:%s:%s" % (pid, name, inv, what.split()[0]),
                          "%s (%s): %s in a state reached by the generated code (state %d)" % (name, what, rj["text"], rj["state_index"]),
                          {"system": name, "what": what, "tlc": rj["text"], "state_index": rj["state_index"], "state": st,
                           "meta": metas[rj["run_index"]] if metas else None})
        return res

    # (2) complete Go graph
    for cfg in table.get("bfs", {}).get(tier, []):
        n = cfg["n"]
        args = with_inv_args(cfg.get("args", ""))
        cs = subst_consts(table, n, args, cfg.get("consts_override"))
        out = drive(chk, drv, name, n, "bfs", 0, cfg.get("max_states", 60000), args=args, tag="-sbfs")
        g = T.load_graph(out)
        for e in g["errors"]:
            chk.violation("%s:%s:go-error:%s" % (pid, name, e.get("label")),
                          "%s n=%d: generated code failed (assertion / panic) from a reachable state at label %s: %s" % (name, n, e.get("label"), e.get("msg")), e)
        walks = T.graph_walks(g)
        tot, keep = 0, []
        for w in walks:
            if tot + len(w) > 25000:
                break
            keep.append(w); tot += len(w)
        judge(keep, None, cs, "graph n=%d" % n)
        stats["bfs"].append({"n": n, "go": [g["summary"]["states"], g["summary"]["edges"]], "walks": len(keep), "complete": g["summary"].get("complete")})
        if keep:
            chk.sample({"system": name, "kind": "graph walk", "n": n, "first_states": keep[-1][:2]})
    # (3) executions under Run
    for cfg in table.get("random", {}).get(tier, []):
        n = cfg["n"]
        args = with_inv_args(cfg.get("args", ""))
        cs = subst_consts(table, n, args, cfg.get("consts_override"))
        out = drive(chk, drv, name, n, cfg.get("policy", "random"), cfg["runs"], cfg["steps"], args=args, tag="-srnd")
        rs = T.load_steps(out)
        for r in rs:
            for e in r["errors"]:
                chk.violation("%s:%s:go-error:%s" % (pid, name, e.get("label")),
                              "%s n=%d: generated code failed during an execution at label %s: %s" % (name, n, e.get("label"), e.get("msg")),
                              {"system": name, "meta": r["meta"], "error": e, "schedule": schedule_of(r, 400)})
        judge([r["states"] for r in rs], [dict(r["meta"], schedule=schedule_of(r, 60)) for r in rs], cs, "run n=%d" % n)
        stats["random"].append({"n": n, "runs": len(rs), "states": sum(len(r["states"]) for r in rs)})
        if rs:
            chk.sample({"system": name, "kind": "execution under Run", "n": n, "seed": rs[0]["meta"].get("seed"), "schedule_prefix": schedule_of(rs[0], 10)})
    return stats
