"""C11 -- the two-phase-commit variable behaves as one copy and does not livelock.

spec/C11/OneCopy.tla      P-spec: observables of the public surface and the property (SameValuePerVersion,
                          OneWinnerPerVersion, VersionsMonotone, StaleReadAborts, Released, Progress)
spec/C11/OneCopyObs.tla   P-level trace spec: folds the events recorded from real replicas (verdicts)
spec/C11/TwoPC.tla        M-spec: acceptor / proposer / network regions of twopc.go, sender times, faults
spec/C11/MCTwoPC.tla      model-checking wrapper + scopes; MC*.cfg exhaustive / simulation configurations
spec/C11/DWReplay.tla     the double-winner schedule replayed on the model with / without the filter
spec/C11/LCReplay.tla     the lost-Commit schedule replayed on the model with / without the Commit retry
spec/C11/LAReplay.tla     the lost-Abort schedule replayed on the model variant "an Abort that met a transport error is not
                          sent again once the broadcast has its quorum" (captured replica, writer blocked) and on the repaired
                          model (the Abort is re-sent, the writer commits); MC3LostAbort.cfg: TLC searches for it (thorough)
spec/C11/RWGen.tla        schedule generator: on the model variant "a reject reply carries the working value" TLC searches
                          for a lagging proposer that catches up from a replica with an uncommitted write (6 family members)
spec/C11/RWReplay.tla     the six generated schedules pinned: followed on the variant (ends with two values for one
                          version) and on the repaired model (invariants hold; exported as cases for the code)
spec/C11/TwoPCTrace.tla   M-level trace spec (conformance; a case that cannot be followed is model drift)
harness/cmd/c11drv        gating ReplicaHandle over the real RPC and in-process transports, scripted
                          (TLC schedules) and seeded random schedules, drain, observations, solo phase
"""
import glob, json, os, re, shutil, threading
import vcommon as V

RW_FAMS = ["pc_insect", "pc_prep", "ab_insect", "ab_prep", "cm_insect", "cm_prep"]
# short TLC jobs on a loaded machine: C1 only and two GC threads start (much) faster than the default JVM set-up
LIGHT_JVM = ["-XX:TieredStopAtLevel=1", "-XX:ParallelGCThreads=2"]
INVS = ["SameValuePerVersion", "OneWinnerPerVersion", "VersionsMonotone", "StaleReadAborts", "Released",
        "Progress", "NoPanic"]


def acts_of(text):
    """the action labels (variable act of TwoPC.tla) of the states TLC printed, in order"""
    out = []
    for m in re.finditer(r"^/\\ act = <<(.*)>>\s*$", text, re.M):
        try:
            out.append(json.loads("[" + m.group(1) + "]"))
        except ValueError:
            pass
    return out


def script_case(name, n, writers, acts, tr, seed):
    steps = [a for a in acts if a and a[0] != "init"]
    solo = -1
    for a in steps:
        if a[0] == "solo":
            solo = a[1]
    return {"case": "%s-%s" % (name, tr), "mode": "script", "tr": tr, "n": n, "writers": writers, "steps": steps,
            "solo": solo, "solotries": 3, "seed": seed}


def trace_cfg(n, writers):
    return ("CONSTANTS\n  Nodes = {%s}\n  Writers = {%s}\n  MaxSect = 99\n  MaxVer = 60\n  DropBudget = 99\n"
            "  DupBudget = 99\n  Filter = TRUE\n  ValueEq = TRUE\n  SoloTries = 99\n  SplitPC = TRUE\n  CommitRetry = TRUE\nINIT TInit\nNEXT TNext0\n"
            "CHECK_DEADLOCK FALSE\n" % (", ".join(map(str, range(1, n + 1))), ", ".join(map(str, writers))))


def run_driver(chk, drv, cases, tag, wd_ms=45000):
    """run the cases; restart after a hung / crashed case. Returns (event lines, statuses)."""
    work = os.path.join(chk.tmp, "drv-" + tag)
    os.makedirs(work, exist_ok=True)
    cf = os.path.join(work, "cases.ndjson")
    with open(cf, "w") as f:
        for c in cases:
            f.write(json.dumps(c) + "\n")
    out, st, cur = [os.path.join(work, x) for x in ("trace.ndjson", "status.ndjson", "current.json")]
    skip, statuses, crashes = 0, [], 0
    while skip < len(cases):
        rc, o = V.run([drv, "-cases", cf, "-out", out, "-status", st, "-current", cur, "-watchdog", str(wd_ms),
                       "-skip", str(skip)], timeout=240 + 40 * (len(cases) - skip))
        statuses = V.read_jsonl(st) if os.path.exists(st) else []
        done = len(statuses)
        if rc == 0:
            break
        if rc == 3 and done > skip:      # a case hung: it is recorded (hang event); continue after it
            skip = done
            continue
        # the driver died inside a case: a panic in a goroutine of the library cannot be recovered
        crashes += 1
        case = cases[done] if done < len(cases) else None
        m = re.search(r"^panic: (.*)$", o, re.M)
        in_lib = "resources/twopc.go" in o or "TwoPCArchetypeResource" in o
        if m and in_lib and case is not None:
            chk.violation("C11:NoPanic:tr=%s:n=%d:%s" % (case["tr"], case["n"], case["mode"]),
                          "the 2PC resource panicked (%s) in case %s" % (m.group(1)[:200], case["case"]),
                          {"case": case, "panic": o[-3000:]})
        else:
            chk.inconclusive.append("c11drv died rc=%s in case %s: %s" % (rc, case and case["case"], o[-1500:]))
        if crashes > 3:
            break
        skip = done + 1
    lines = V.read_jsonl(out) if os.path.exists(out) else []
    return lines, statuses


def judge(chk, work, good, bycase, stat, chunks, rounds=6):
    """P-level verdicts: TLC folds the recorded events into OneCopyObs.tla, one fold per transport."""
    out = {"accepted": 0, "rejected": [], "states": 0, "transitions": 0, "errors": []}
    boxes = {}

    def one(tr):
        # the targeted schedules come first; a flood of rejections on one transport must not hide the other
        mine = [s for s in good if s[0].get("tr") == tr]
        mine.sort(key=lambda s: 0 if s[0].get("case", "").startswith(("dw-", "rel-", "lostcommit-", "lostabort", "rw-", "rwgen-")) else 1)
        # every rejected case costs one more TLC run of its chunk: the quick tier stops after 2 per chunk (one replay
        # per class is reported anyway; what is left unchecked is listed as inconclusive)
        boxes[tr] = V.fold_traces(work, "OneCopyObs", "OneCopyObs.cfg", mine, timeout=2400, chunks=chunks, max_rounds=rounds, jvm=LIGHT_JVM)
    ts = [threading.Thread(target=one, args=(tr,)) for tr in sorted({s[0].get("tr") for s in good})]
    [t.start() for t in ts]
    [t.join() for t in ts]
    for r in boxes.values():
        for k in out:
            out[k] += r[k]
    obs = out
    chk.states += obs["states"]; chk.transitions += obs["transitions"]; chk.traces += obs["accepted"]
    for e in obs["errors"]:
        chk.inconclusive.append("OneCopyObs: " + e)
    seen_classes = {}
    for r in obs["rejected"]:
        seg = r["seg"]
        h = seg[0]
        inv = "rejected"
        for name in INVS:
            if name in r["text"]:
                inv = name
        if r["kind"] == "stuck":
            chk.inconclusive.append("OneCopyObs could not consume event %d of case %s" % (r["line_in_seg"], h.get("case")))
            continue
        cls = (inv, h.get("tr"), h.get("mode"))
        seen_classes[cls] = seen_classes.get(cls, 0) + 1
        if seen_classes[cls] > 1:
            continue      # one replay per class (invariant, transport, kind of schedule); the count is in the evidence
        c = bycase.get(h.get("case"), {})
        st = stat.get(h.get("case"), {})
        replay_case = dict(c)
        if c.get("mode") == "free" and st.get("sched"):
            replay_case = {"case": c["case"], "mode": "script", "tr": c["tr"], "n": c["n"], "writers": c["writers"],
                           "steps": st["sched"], "solo": c.get("solo", 0), "solotries": c.get("solotries", 3), "seed": c["seed"]}
            for a in st["sched"]:
                if a and a[0] == "solo":
                    replay_case["solo"] = a[1]
        ev = seg[r["line_in_seg"] - 1] if 0 < r["line_in_seg"] <= len(seg) else {}
        chk.violation("C11:%s:tr=%s:n=%s:%s" % (inv, h.get("tr"), h.get("n"), h.get("mode")),
                      "real replicas violate %s over the %s transport in case %s at event %d %s" % (
                          inv, h.get("tr"), h.get("case"), r["line_in_seg"], json.dumps(ev)[:300]),
                      {"case": replay_case, "line_in_seg": r["line_in_seg"], "tlc": r["text"],
                       "events": seg[max(0, r["line_in_seg"] - 40):r["line_in_seg"] + 2]})
    chk.notes["rejected_cases_per_class"] = {"/".join(map(str, k)): v for k, v in seen_classes.items()}


def replay_one(chk, specsrc, work):
    rp = json.load(open(chk.replay))
    case = rp["case"]["case"]
    drv = V.build_driver("c11drv", chk.bindir)
    lines, statuses = run_driver(chk, drv, [case], "replay")
    segs = V.split_cases(lines)
    if not segs:
        raise V.Inconclusive("the driver recorded nothing")
    for s in statuses:
        if s.get("setup_error") or not s.get("ok"):
            chk.inconclusive.append("case %s: %s" % (s["case"], s.get("setup_error") or s.get("hang")))
    good = [s for s in segs if not any(ln.get("e") == "hang" for ln in s)]
    judge(chk, work, good, {case["case"]: case}, {s["case"]: s for s in statuses}, 1)
    chk.notes["replayed_case"] = case["case"]
    chk.notes["schedule_drift"] = [ln.get("what") for s in good for ln in s if ln.get("e") == "drift"]
    for s in good:
        chk.sample({"case": s[0], "first_events": s[1:16], "events": len(s)})
    return chk.finish(rule="replay of the schedule recorded in %s on real replicas, judged by OneCopyObs.tla" % os.path.basename(chk.replay))


def start_mlevel(chk, specsrc, good):
    """TwoPCTrace.tla per (replica count, writers) group, in threads; returns (threads, set of conforming case names)"""
    groups = {}
    for s in good:
        h = s[0]
        groups.setdefault((h["n"], tuple(h["writers"])), []).append(s)
    conform, mlock = set(), threading.Lock()

    def mjob(key, gsegs):
        n, writers = key
        d = os.path.join(chk.tmp, "mt-%d-%s" % (n, "".join(map(str, writers))))
        V.copy_specs(specsrc, d)
        with open(os.path.join(d, "TwoPCTrace.cfg"), "w") as f:
            f.write(trace_cfg(n, writers))
        with open(os.path.join(d, "trace.ndjson"), "w") as f:
            for s in gsegs:
                f.write(json.dumps(dict(s[0], len=len(s))) + "\n")
                for ln in s[1:]:
                    f.write(json.dumps(ln) + "\n")
        res = V.tlc(d, "TwoPCTrace", cfg="TwoPCTrace.cfg", workers=2, timeout=2400, deadlock=False, jvm=LIGHT_JVM)
        with mlock:
            chk.tlc_jobs.append(res.summary("TwoPCTrace n=%d writers=%s (%d cases)" % (n, list(writers), len(gsegs))))
            chk.states += res.distinct; chk.transitions += res.generated
            if res.error or res.timed_out:
                chk.drift.append({"spec": "TwoPC.tla", "group": str(key), "error": res.error or "timeout"})
            for m in re.finditer(r'<<"CONFORMS", "([^"]*)">>', res.out):
                conform.add(m.group(1))
    mths = [threading.Thread(target=mjob, args=(k, g)) for k, g in groups.items()]
    [t.start() for t in mths]
    return mths, conform


def run(chk):
    specsrc = os.path.join(V.SPEC, "C11")
    work = os.path.join(chk.tmp, "spec")
    V.copy_specs(specsrc, work)
    quick = chk.quick()
    seed = chk.seed
    W = max(2, min(8, V.NCPU // 2))

    if chk.replay:
        return replay_one(chk, specsrc, work)

    # ------------------------------------------------------------------ 1. design level (TLC on the M-spec)
    bg = []

    def design():
        def job(name, cfg, module="MCTwoPC", expect=None, workers=W, timeout=2400, deadlock=False, **kw):
            d = os.path.join(chk.tmp, "mc-" + cfg)
            V.copy_specs(specsrc, d)
            res = V.tlc(d, module, cfg=cfg + ".cfg", workers=workers, timeout=timeout, deadlock=deadlock, **kw)
            bg.append((name, res, expect))
        job("MC3 exhaustive: 3 replicas, 2 writers x 1 section + solo phase (M => P)", "MC3")
        job("DWReplay with the sender-time filter: the double-winner schedule cannot be followed", "DWReplayFilter",
            module="DWReplay", workers=1)
        job("LCReplay with the Commit retry: the lost-Commit schedule cannot be followed", "LCReplayRetry",
            module="LCReplay", workers=1)
        job("LAReplay, repaired model: the lost Abort is sent again, the captured replica is released, the writer on it "
            "commits in its first solo section (schedule followed to its end, M => P invariants on the way)",
            "LAReplayResendFollowed", module="LAReplay", workers=1, deadlock=True, jvm=LIGHT_JVM)
        if not quick:
            job("MC2 exhaustive: 2 replicas, 2 writers x 2 sections, drop 1, duplicate 1", "MC2")
            job("MC3Faults exhaustive: 3 replicas, 2 writers x 1 section + solo phase, drop 1, duplicate 1", "MC3Faults", timeout=5400)
            job("MC3Live: every fair behaviour comes to rest (no livelock in the design)", "MC3Live", workers=2, timeout=3000)
            job("MC3PinnedLocal (expected: OneWinnerPerVersion violated without the filter)", "MC3PinnedLocal",
                expect="OneWinnerPerVersion")
            job("LAReplay, repaired model: the variant's lost-Abort schedule cannot be followed (not quiet after the error)",
                "LAReplayResend", module="LAReplay", workers=1)
            job("LAReplay on the variant 'no re-send of an Abort after the quorum' (expected: Released violated)",
                "LAReplayNoResendReleased", module="LAReplay", workers=1, expect="Released")

    th = threading.Thread(target=design)
    th.start()

    # vacuity guards that also produce the schedules replayed on the code, and the simulation runs that
    # export schedules of the repaired protocol (invariants checked on every state on the way); all in parallel
    sims = [("MC3Sim", 3, [1, 2], 16 if quick else 80), ("MC4Sim", 4, [1, 2, 3], 8 if quick else 40),
            ("MC5Sim", 5, [1, 2, 3], 6 if quick else 30)]
    if not quick:
        sims.append(("MC7Sim", 7, [1, 2, 3, 4], 20))
    pre = {}

    def prejob(key, module, cfg, deadlock=False, **kw):
        d = os.path.join(chk.tmp, "pre-" + key)
        V.copy_specs(specsrc, d)
        os.makedirs(os.path.join(d, "b"), exist_ok=True)
        pre[key] = (V.tlc(d, module, cfg=cfg + ".cfg", deadlock=deadlock, jvm=LIGHT_JVM, **kw), d)
    pths = [threading.Thread(target=prejob, args=("dw", "DWReplay", "DWReplayNoFilter"), kwargs=dict(workers=1, timeout=900)),
            threading.Thread(target=prejob, args=("rel", "MCTwoPC", "MC3PinnedRPC"), kwargs=dict(workers=2, timeout=900)),
            threading.Thread(target=prejob, args=("lc", "LCReplay", "LCReplayNoRetry"), kwargs=dict(workers=1, timeout=900)),
            threading.Thread(target=prejob, args=("la", "LAReplay", "LAReplayNoResend"), kwargs=dict(workers=1, timeout=900))]
    # the class "a reply carries working instead of committed state": pinned generated schedules (one cheap run per
    # model variant) and the generator searches themselves (two family members per quick run, all six otherwise)
    pths += [threading.Thread(target=prejob, args=("rwbad", "RWReplay", "RWReplayWorking"), kwargs=dict(workers=1, timeout=900, deadlock=True)),
             threading.Thread(target=prejob, args=("rwgood", "RWReplay", "RWReplayCommitted"), kwargs=dict(workers=1, timeout=900, deadlock=True))]
    fams = [RW_FAMS[seed % 2], RW_FAMS[4 + seed % 2]] if quick else RW_FAMS
    # the searches are the longest jobs of this phase: the driver starts on the other cases meanwhile
    gths = [threading.Thread(target=prejob, args=("rwgen_" + fam, "RWGen", "RWGen_" + fam), kwargs=dict(workers=2, timeout=1500))
            for fam in fams]
    if not quick:
        # the search that finds the lost-Abort schedule (1.8 M states): its counterexample is replayed as well
        gths.append(threading.Thread(target=prejob, args=("lagen", "MCTwoPC", "MC3LostAbort"), kwargs=dict(workers=W, timeout=2400)))
    drvbox = {}

    def build():
        try:
            drvbox["drv"] = V.build_driver("c11drv", chk.bindir)
        except Exception as e:     # noqa
            drvbox["err"] = e
    bth = threading.Thread(target=build)
    bth.start()
    for cfg, n, writers, num in sims:
        pths.append(threading.Thread(target=prejob, args=(cfg, "MCTwoPC", cfg), kwargs=dict(
            workers=2, timeout=1200, simulate="file=b/t,num=%d" % max(1, num // 2), depth=160, seed=seed * 1000 + n)))
    [t.start() for t in pths + gths]
    [t.join() for t in pths]
    res = pre["dw"][0]
    chk.tlc_jobs.append(res.summary("DWReplay without the filter (expected: OneWinnerPerVersion violated on the model)"))
    chk.notes["model_double_winner_without_filter"] = bool(res.violation and "OneWinnerPerVersion" in res.violation)
    if not chk.notes["model_double_winner_without_filter"]:
        chk.inconclusive.append("vacuity: the model without the sender-time filter no longer yields two winners: " + str(res.error or res.violation))
    dw_acts = acts_of(res.out)
    res = pre["rel"][0]
    chk.tlc_jobs.append(res.summary("MC3PinnedRPC: Go == on decoded values (expected: Released violated on the model)"))
    chk.notes["model_capture_with_pointer_identity"] = bool(res.violation and "Released" in res.violation)
    if not chk.notes["model_capture_with_pointer_identity"]:
        chk.inconclusive.append("vacuity: the model with pointer identity no longer captures a replica: " + str(res.error or res.violation))
    rel_acts = acts_of(res.out)
    res = pre["lc"][0]
    chk.tlc_jobs.append(res.summary("LCReplay without the Commit retry (expected: SoloProgress violated on the model)"))
    chk.notes["model_lost_commit_blocks_writer"] = bool(res.violation and "SoloProgress" in res.violation)
    if not chk.notes["model_lost_commit_blocks_writer"]:
        chk.inconclusive.append("vacuity: the model without the Commit retry no longer blocks the writer: " + str(res.error or res.violation))
    lc_acts = acts_of(res.out)
    res = pre["la"][0]
    chk.tlc_jobs.append(res.summary("LAReplay on the variant 'an Abort that met a transport error is not sent again once the "
                                    "broadcast has its quorum' (expected: SoloProgress violated on the model)"))
    chk.notes["model_lost_abort_blocks_writer"] = bool(res.violation and "SoloProgress" in res.violation)
    if not chk.notes["model_lost_abort_blocks_writer"]:
        chk.inconclusive.append("vacuity: the model that does not re-send an Abort after the quorum no longer blocks the writer: " + str(res.error or res.violation))
    la_acts = acts_of(res.out)
    # reject-carries-working family: guards, pinned schedules (exported by TLC from the repaired model), generated ones
    res = pre["rwbad"][0]
    chk.tlc_jobs.append(res.summary("RWReplay on the variant 'reject reply carries the working value' (expected: every "
                                    "schedule is followed and ends with two values for one version)"))
    chk.notes["model_reject_working_breaks_one_copy"] = bool(res.ok and res.distinct > 0)
    if not chk.notes["model_reject_working_breaks_one_copy"]:
        chk.inconclusive.append("vacuity: the model whose reject reply carries the working value no longer ends the pinned "
                                "schedules with two values for one version: " + str(res.error or res.violation or res.distinct))
    res, d = pre["rwgood"]
    chk.add_tlc("RWReplay on the repaired model (every pinned schedule is followed, invariants hold, schedules exported)", res)
    rw_scripts = []
    for fn in sorted(glob.glob(os.path.join(d, "rw_*.ndjson"))):
        steps = V.read_jsonl(fn)
        if res.ok and len(steps) > 8:
            rw_scripts.append(("rw-" + os.path.basename(fn)[3:-7].replace("_", ""), steps))
    if len(rw_scripts) < len(RW_FAMS):
        chk.inconclusive.append("RWReplay exported %d of %d schedules" % (len(rw_scripts), len(RW_FAMS)))
    scripts = []
    for cfg, n, writers, num in sims:
        res, d = pre[cfg]
        chk.add_tlc("%s simulation (schedule export, invariants on every state)" % cfg, res)
        files = sorted(glob.glob(os.path.join(d, "b", "t_*")))
        for i, fn in enumerate(files[:num]):
            acts = acts_of(open(fn).read())
            if len(acts) > 8:
                scripts.append(("sim%d-%d" % (n, i), n, writers, acts))
    if len(scripts) < 4:
        raise V.Inconclusive("TLC simulation exported too few schedules (%d)" % len(scripts))

    # ------------------------------------------------------------------ 2. cases for the real code
    cases = []
    if True:
        for tr in ("rpc", "local"):
            if len(dw_acts) > 5:
                cases.append(dict(script_case("dw", 3, [1, 2], dw_acts, tr, seed), solo=2))
            if len(rel_acts) > 3:
                w = [a[1] for a in rel_acts if a[0] == "read"]
                other = 1 if (w and w[0] == 2) else 2
                cases.append(dict(script_case("rel", 3, [1, 2], rel_acts, tr, seed), solo=other))
            if len(lc_acts) > 5:
                cases.append(dict(script_case("lostcommit", 3, [1, 2], lc_acts, tr, seed), solo=1))
            if len(la_acts) > 5 and any(a[0] == "solo" for a in la_acts):
                # the writer of the solo phase is the replica the lost Abort left captured (the schedule's "solo" step)
                cases.append(script_case("lostabort", 3, [1, 2], la_acts, tr, seed))
            for name, acts in rw_scripts:
                cases.append(script_case(name, 3, [1, 2], acts, tr, seed))
            for name, n, writers, acts in scripts:
                cases.append(script_case(name, n, writers, acts, tr, seed))
            plan = [(2, [1, 2], 6), (3, [1, 2], 10), (3, [1, 2, 3], 8), (4, [1, 2, 3], 8), (5, [1, 2, 3], 6)] if quick else \
                   [(2, [1, 2], 20), (3, [1, 2], 30), (3, [1, 2, 3], 30), (4, [1, 2, 3], 30), (4, [1, 2, 3, 4], 16),
                    (5, [1, 2, 3], 20), (6, [1, 2, 3], 12), (7, [1, 2, 3, 4], 12)]
            for n, writers, cnt in plan:
                for i in range(cnt):
                    s = seed * 100003 + n * 1009 + len(writers) * 101 + i
                    # every other case has a laggard: one writer whose link is slow in both directions (it falls behind, its
                    # requests arrive stale) while the others dwell in their sections with an uncommitted write
                    cases.append({"case": "free%d.%d-%d-%s" % (n, len(writers), i, tr), "mode": "free", "tr": tr, "n": n,
                                  "writers": writers, "nsteps": 70 + 25 * n, "maxsect": 3 if i % 2 else 4,
                                  "drops": 1 if i % 5 == 4 else 0, "dups": 1 if i % 3 == 2 else 0,
                                  "seed": s, "solo": -1, "solotries": 3, "vabort": 0.25 if i % 2 else 0.0,
                                  "lag": writers[i % len(writers)] if i % 2 == 0 else 0})

    # ------------------------------------------------------------------ 3. run them
    bth.join()
    if "drv" not in drvbox:
        raise drvbox.get("err") or V.Inconclusive("c11drv was not built")
    drv = drvbox["drv"]
    half = (len(cases) + 1) // 2
    parts = [cases] if len(cases) < 8 else [cases[:half], cases[half:]]
    results = [None] * (len(parts) + 1)

    def runpart(i):
        try:
            results[i] = run_driver(chk, drv, parts[i], "p%d" % i)
        except Exception as e:     # noqa
            results[i] = e
    ths = [threading.Thread(target=runpart, args=(i,)) for i in range(len(parts))]
    [t.start() for t in ths]
    # the generated schedules of the reject-carries-working family: a third driver run as soon as the searches are done
    [t.join() for t in gths]
    gen_cases = []
    for fam in fams:
        res = pre["rwgen_" + fam][0]
        chk.tlc_jobs.append(res.summary("RWGen %s: search on the variant (expected: a lagging proposer installs an uncommitted "
                                        "write, SameValuePerVersion violated on the model)" % fam))
        chk.states += res.distinct; chk.transitions += res.generated
        acts = acts_of(res.out)
        if res.violation and "GenInv" in res.violation and len(acts) > 8:
            for tr in ("rpc", "local"):
                gen_cases.append(script_case("rwgen-" + fam.replace("_", ""), 3, [1, 2], acts, tr, seed))
        else:
            chk.inconclusive.append("vacuity: RWGen %s found no behaviour of the wanted kind: %s" % (fam, res.error or res.violation or "none"))
    if "lagen" in pre:
        res = pre["lagen"][0]
        chk.tlc_jobs.append(res.summary("MC3LostAbort: search on the variant 'no re-send of an Abort after the quorum', 1 lost "
                                        "message (expected: SoloProgress violated on the model)"))
        chk.states += res.distinct; chk.transitions += res.generated
        acts = acts_of(res.out)
        if res.violation and "SoloProgress" in res.violation and any(a[0] == "solo" for a in acts):
            for tr in ("rpc", "local"):
                gen_cases.append(script_case("lostabortgen", 3, [1, 2], acts, tr, seed))
        else:
            chk.inconclusive.append("vacuity: MC3LostAbort found no captured replica: %s" % (res.error or res.violation or "none"))
    parts.append(gen_cases)
    cases += gen_cases
    if gen_cases:
        runpart(len(parts) - 1)
    else:
        results[len(parts) - 1] = ([], [])
    [t.join() for t in ths]
    lines, statuses = [], []
    for r in results:
        if isinstance(r, Exception):
            raise V.Inconclusive("driver run failed: %s" % r)
        lines += r[0]
        statuses += r[1]
    bycase = {c["case"]: c for c in cases}
    stat = {s["case"]: s for s in statuses}
    segs = V.split_cases(lines)
    if not segs:
        raise V.Inconclusive("the driver recorded nothing")
    for s in statuses:
        if s.get("setup_error"):
            chk.inconclusive.append("case %s: set-up failed: %s" % (s["case"], s["setup_error"]))
        elif not s.get("ok"):
            chk.inconclusive.append("case %s: watchdog: %s" % (s["case"], s.get("hang")))
    norefl = [s["case"] for s in statuses if s.get("refl") is False]
    if norefl:
        chk.gaps.append("state projection by reflection unavailable (%s): no solo phase, no M-level state comparison in %d cases"
                        % (statuses[0].get("reflwhy"), len(norefl)))

    # ------------------------------------------------------------------ 4. P-level verdicts (TLC folds the recorded events)
    good = [s for s in segs if not any(ln.get("e") == "hang" for ln in s)]
    mths = start_mlevel(chk, specsrc, good)
    judge(chk, work, good, bycase, stat, 2 if quick else 5, 2 if quick else 6)
    # ------------------------------------------------------------------ 5. M-level conformance (drift only)
    [t.join() for t in mths[0]]
    conform = mths[1]
    chk.notes["m_level_cases_conforming"] = len(conform)
    for s in good:
        name = s[0].get("case")
        d = [ln.get("what") for ln in s if ln.get("e") == "drift"]
        if name not in conform or d:
            chk.drift.append({"spec": "TwoPC.tla", "case": name, "tr": s[0].get("tr"),
                              "conforms": name in conform, "schedule_drift": d[:1]})

    # ------------------------------------------------------------------ design-level results
    th.join()
    for name, res, expect in bg:
        if expect:
            chk.tlc_jobs.append(res.summary(name))
            chk.states += res.distinct; chk.transitions += res.generated
            if not (res.violation and expect in res.violation):
                chk.inconclusive.append("vacuity: %s: expected a counterexample to %s, got %s" % (name, expect, res.error or res.violation or "none"))
        else:
            chk.add_tlc(name, res)
    chk.exhaustive = all(r.ok for n_, r, e in bg if not e)

    # ------------------------------------------------------------------ evidence
    for s in good[:2] + [x for x in good if x[0].get("mode") == "free"][:2]:
        chk.sample({"case": s[0], "first_events": s[1:16], "events": len(s)})
    chk.notes["cases_run"] = len(segs)
    chk.notes["events_recorded"] = len(lines)
    chk.notes["transports"] = sorted({s[0].get("tr") for s in segs})
    chk.notes["replica_counts"] = sorted({s[0].get("n") for s in segs})
    chk.assumptions += [
        "TLC/SANY/Json module",
        "the gating ReplicaHandle (harness/cmd/c11drv) logs a request before it calls the real transport and the response after it returns",
        "Progress is judged in the solo phase only: the driver starts it when every operation returned, no message is held and "
        "numInFlightRequests (read by reflection) is 0 on every replica; bound = 3 sections, counted in sections, never in time",
        "Released is judged as 'a refusal of a PreCommit for the expected version must be justified by the replica's own open "
        "PreCommit or by an accepted, not yet aborted PreCommit of another proposer' (sender times order a proposer's requests)",
        "SameValuePerVersion is judged on what the replicas expose: GetState replies, the ReadValue that opens a section (the "
        "replica is outside any section then) and Commit requests; a value exposed for version v > 0 must be the value of a "
        "Commit request for v that crossed a ReplicaHandle before",
        "design-level bounds: 2-3 replicas exhaustively (1-2 sections per writer, 1 drop, 1 duplicate), 3-7 replicas by simulation",
    ]
    chk.gaps += ["two Receive calls of one sender running concurrently inside one replica (net/rpc serves requests in parallel; "
                 "the gate delivers one request at a time per schedule step)",
                 "shcounter.ANode under MPCalContext.Run is not part of this check (sections are issued the way Run issues them)"]
    return chk.finish(rule="schedules = TLC simulation behaviours of TwoPC.tla (3/4/5%s replicas, drops, duplicates, reordering) + the "
                           "TLC counterexamples of the pinned-tree variants and of the variant 'an Abort that met a transport error is not sent "
                           "again after the quorum' (lost Abort) + the schedules TLC generates on the variant 'a reject reply "
                           "carries the working value' (RWGen: a lagging proposer catches up from a replica with an uncommitted write; "
                           "stale PreCommit / Abort / Commit) + seeded random schedules (2-%d replicas, every other one with a laggard), each run over "
                           "the RPC and the in-process transport on real NewTwoPC replicas behind a gating ReplicaHandle, drained, observed, "
                           "(GetState of a replica after every Commit that reached it and after every reject reply it was handed, of all "
                           "replicas at the end), followed by a solo phase; every event folded by TLC into OneCopyObs.tla (verdict) and "
                           "TwoPCTrace.tla (drift)"
                           % ("" if quick else "/7", 5 if quick else 7))
