"""C13 -- the CRDT resource delivers every committed update and loses none.

spec/C13/CRDTDelivery.tla       P-spec: own / infl / seen per node; PSafety (every step is a write, commit,
                                abort or a merge of committed updates), Delivered, Converged
spec/C13/CRDTResource.tla       M-spec of distsys/resources/crdt.go (value/oldValue/hasOldValue,
                                needBroadcastCount, merge queue, broadcast in two phases), with the pinned
                                and the repaired variants; refinement mapping to the P-spec
spec/C13/MC*.cfg                exhaustive design-level runs (+ expected counterexamples of the variants)
spec/C13/CRDTGen.tla, Gen*.cfg  generator: state graph whose edges carry the driver command
spec/C13/CRDTObs.tla            P-level trace spec: verdicts on what the real code did
spec/C13/CRDTResourceTrace.tla  M-level trace spec: conformance (a rejection is drift)
harness/cmd/c13drv              real resources.NewCRDT nodes behind harness proxies; gated by hook H3
patches/C13-hook-crdt.diff      hook H3 (tick / merge / merged), build tag verif
"""
import concurrent.futures
import json
import os
import random
import re

import vcommon as V

ID = "C13"
INVS = ["NoInflightBroadcast", "AbortErases", "OwnUpdateLost", "ReceivedNeverLost", "Delivered", "WellFormed"]


def hook_present():
    return os.path.exists(os.path.join(V.REPO, "distsys", "resources", "crdt_verif_on.go"))


# --------------------------------------------------------------------------- generator


def parse_dot(path):
    """TLC dot dump of CRDTGen -> (init, {node: cmd that led to it}, {node: [succ]})."""
    last, out, init = {}, {}, None
    node_re = re.compile(r'^(-?\d+) \[label="((?:[^"\\]|\\.)*)"')
    edge_re = re.compile(r'^(-?\d+) -> (-?\d+) ')
    for ln in open(path):
        m = edge_re.match(ln)
        if m:
            out.setdefault(m.group(1), [])
            if m.group(2) not in out[m.group(1)]:
                out[m.group(1)].append(m.group(2))
            continue
        m = node_re.match(ln)
        if m:
            lm = re.search(r'last = <<([^>]*)>>', m.group(2))
            if not lm:
                raise V.Inconclusive("generator graph: node without 'last'")
            last[m.group(1)] = "".join(re.findall(r'[A-Za-z0-9]+', lm.group(1)))
            out.setdefault(m.group(1), [])
            if "style = filled" in ln:
                init = m.group(1)
    for u in out:
        out[u].sort()
    if init is None or not last:
        raise V.Inconclusive("generator graph: could not parse the dot dump")
    return init, last, out


def walks_from_graph(init, last, out, rng, nrandom, cap, max_cover=None):
    """Walks from the initial state that together cover every edge (= every command from every
    abstract state), plus random walks. Returns (list of command lists, edges, edges covered)."""
    parent = {init: None}
    order = [init]
    for u in order:
        for v in out[u]:
            if v not in parent:
                parent[v] = u
                order.append(v)

    def path_to(u):
        p = []
        while u is not None:
            p.append(u)
            u = parent[u]
        return p[::-1]

    edges = [(u, v) for u in order for v in out[u]]
    uncovered = set(edges)
    todo = list(edges)
    rng.shuffle(todo)
    walks = []
    for e in todo:
        if e not in uncovered:
            continue
        if max_cover is not None and len(walks) >= max_cover:
            break
        p = path_to(e[0]) + [e[1]]
        for a, b in zip(p, p[1:]):
            uncovered.discard((a, b))
        while len(p) < cap:
            w = p[-1]
            fresh = [z for z in out[w] if (w, z) in uncovered]
            if not fresh:
                break
            z = fresh[rng.randrange(len(fresh))]
            uncovered.discard((w, z))
            p.append(z)
        walks.append(p)
    for _ in range(nrandom):
        p = [init]
        while len(p) < cap:
            succ = out[p[-1]]
            if not succ or (len(p) > 8 and rng.random() < 0.03):
                break
            p.append(succ[rng.randrange(len(succ))])
        walks.append(p)
    seen, cmds = set(), []
    for p in walks:
        c = [last[v] for v in p[1:]]
        if c and tuple(c) not in seen:
            seen.add(tuple(c))
            cmds.append(c)
    return cmds, len(edges), len(edges) - len(uncovered)


GEN = {  # cfg -> (n, virt)
    "GenSpy": (2, [2]), "GenPair": (2, []), "GenSpy2": (2, [2]), "GenPair2": (2, []), "GenTrio": (3, [3]),
    "GenTrio3": (3, []),
}


def sim_walks(chk, work, cfg, num, depth):
    """Random behaviours of CRDTGen from TLC's simulator (for graphs too large to dump)."""
    import glob
    import shutil
    d = os.path.join(work, "sim-" + cfg)
    shutil.rmtree(d, ignore_errors=True)
    os.makedirs(d)
    res = V.tlc(work, "CRDTGen", cfg=cfg + ".cfg", workers=1, timeout=2400, deadlock=False,
                simulate="num=%d,file=%s" % (num, os.path.join("sim-" + cfg, "t")), depth=depth, seed=chk.seed)
    chk.add_tlc("generator %s (TLC simulation, %d behaviours of depth <= %d)" % (cfg, num, depth), res)
    if res.error or res.timed_out or res.violation:
        raise V.Inconclusive("generator %s (simulation) failed: %s" % (cfg, res.error or res.violation or "timeout"))
    walks, seen = [], set()
    for f in sorted(glob.glob(os.path.join(d, "t_*"))):
        c = ["".join(re.findall(r'[A-Za-z0-9]+', m)) for m in re.findall(r'^/\\ last = <<([^>]*)>>', open(f).read(), re.M)]
        c = [x for x in c if x != "init"]
        if c and tuple(c) not in seen:
            seen.add(tuple(c))
            walks.append(c)
    shutil.rmtree(d, ignore_errors=True)
    if not walks:
        raise V.Inconclusive("generator %s (simulation) produced no behaviour" % cfg)
    return walks

# schedules that exhibited defects 10 / 11 of DESIGN section 8 on the pinned tree, and the race a
# repair of 11 that only moves the arming into Commit leaves open (kept as regression cases)
FIXED_CASES = [
    ("d10-merge-then-abort", 2, [2], ["W1", "V2", "I21", "M1", "A1"]),
    ("d10-pair", 2, [], ["W2", "C2", "T2", "W1", "P21", "M1", "A1", "B21", "M2"]),
    ("d11-tick-between-write-and-commit", 2, [2], ["W1", "T1", "C1", "P12", "B12"]),
    ("d11-pair", 2, [], ["W1", "T1", "P12", "C1", "B12", "M1", "M2"]),
    ("d11-commit-while-broadcast-in-flight", 2, [2], ["W1", "C1", "T1", "W1", "C1", "P12", "B12"]),
    ("d11-commit-while-broadcast-in-flight-3", 3, [3], ["W1", "C1", "T1", "P12", "P13", "B12", "W1", "C1", "B13", "M1", "M1", "M2"]),
    ("fault-then-retry", 3, [3], ["W1", "C1", "T1", "X12", "P13", "B12", "B13", "M1", "T1", "P12", "P13", "B13", "B12"]),
    ("abort-then-write", 2, [2], ["W1", "W1", "A1", "W1", "C1", "V2", "I21", "W1", "M1", "C1"]),
]


def make_cases(chk, work, rng):
    quick = chk.quick()
    cases, cid = [], 0
    kinds = ["gc", "aw"]

    def add(mode, kind, n, virt, cmds=None, label="", **kw):
        nonlocal cid
        cid += 1
        c = {"id": cid, "mode": mode, "kind": kind, "n": n, "virt": virt, "cmds": cmds or [],
             "end": "commit" if (cid + chk.seed) % 3 else "abort", "seed": chk.seed, "label": label}
        c.update(kw)
        cases.append(c)

    gen_stats = {}
    if hook_present():
        for label, n, virt, cmds in FIXED_CASES:
            for k in kinds:
                for end in ("commit", "abort"):
                    add("gated", k, n, virt, cmds, label)
                    cases[-1]["end"] = end
        plan = [("GenSpy", None, 20), ("GenPair", 260, 20)] if quick else \
               [("GenSpy", None, 100), ("GenPair", None, 100), ("GenSpy2", 1500, 300)]
        for cfg, max_cover, nrandom in plan:
            dot = cfg + ".dot"
            res = V.tlc(work, "CRDTGen", cfg=cfg + ".cfg", workers=4, timeout=2400, deadlock=False, dump=dot)
            chk.add_tlc("generator %s (state graph, every edge = one driver command)" % cfg, res)
            if not res.ok:
                raise V.Inconclusive("generator %s failed: %s" % (cfg, res.error or res.violation or "timeout"))
            init, last, out = parse_dot(os.path.join(work, dot))
            walks, nedges, ncov = walks_from_graph(init, last, out, rng, nrandom, cap=40 if quick else 60,
                                                   max_cover=max_cover)
            gen_stats[cfg] = {"states": len(last), "edges": nedges, "edges_covered_by_walks": ncov, "walks": len(walks)}
            n, virt = GEN[cfg]
            for w in walks:
                add("gated", kinds[cid % 2], n, virt, w, cfg)
        simplan = [("GenTrio", 16, 40), ("GenTrio3", 16, 40)] if quick else \
                  [("GenPair2", 300, 70), ("GenTrio", 300, 70), ("GenTrio3", 300, 70)]
        for cfg, num, depth in simplan:
            walks = sim_walks(chk, work, cfg, num, depth)
            gen_stats[cfg] = {"simulated_walks": len(walks), "depth": depth}
            n, virt = GEN[cfg]
            for w in walks:
                add("gated", kinds[cid % 2], n, virt, w, cfg)
    nfree = 24 if quick else 240
    for x in range(nfree):
        n = 2 + x % 2
        add("free", kinds[(x // 2) % 2], n, [], None, "free", steps=rng.randrange(20, 90) if quick else rng.randrange(20, 160),
            failp=0.0 if x % 3 else 0.15)
    return cases, gen_stats


# --------------------------------------------------------------------------- run


def run_driver(chk, drv, cases, parts):
    """Run the cases on the real code, in `parts` driver processes. Returns the event lines."""
    chunks = [cases[i::parts] for i in range(parts)]

    def one(ix):
        if not chunks[ix]:
            return []
        cf = os.path.join(chk.tmp, "cases-%d.ndjson" % ix)
        of = os.path.join(chk.tmp, "events-%d.ndjson" % ix)
        with open(cf, "w") as f:
            for c in chunks[ix]:
                f.write(json.dumps(c) + "\n")
        for attempt in (1, 2):
            rc, o = V.run([drv, "-cases", cf, "-out", of, "-watchdog", "120"], timeout=3000)
            if rc == 0:
                return V.read_jsonl(of)
            # e.g. a node could not listen on the port reserved for it (log.Fatalf in NewCRDT): once more
        raise V.Inconclusive("c13drv failed rc=%s: %s" % (rc, o[-1500:]))

    lines = []
    with concurrent.futures.ThreadPoolExecutor(max_workers=parts) as ex:
        for ls in ex.map(one, range(parts)):
            lines += ls
    return lines


def seg_key(seg):
    h = seg[0]
    return "kind=%s:mode=%s:n=%s:virt=%s:%s" % (h.get("kind"), h.get("mode"), h.get("nn"),
                                                  "".join(map(str, h.get("virt", []))), h.get("label"))


def run(chk):
    work = os.path.join(chk.tmp, "spec")
    V.copy_specs(os.path.join(V.SPEC, ID), work)
    quick = chk.quick()
    rng = random.Random(chk.seed)
    hook = hook_present()

    import time
    phases, t_ph = {}, [time.time()]

    def phase(name):
        phases[name] = round(time.time() - t_ph[0], 1)
        t_ph[0] = time.time()

    # 1. design level --------------------------------------------------------------------------
    if not chk.replay:
        jobs = [("MCFixed2Asym", "2 nodes, node 1 <=2 updates, node 2 <=1")] if quick else \
               [("MCFixed2", "2 nodes, <=2 updates each"), ("MCFixed2Fail", "2 nodes, one failing call"),
                ("MCFixed3", "3 nodes, <=1 update each"), ("MCFixed3Fail", "3 nodes, one failing call")]
        allok = True
        for cfg, what in jobs:
            res = V.tlc(work, "MCCRDT", cfg=cfg + ".cfg", workers=8, timeout=2400 if quick else 5400, deadlock=False,
                        seed=chk.seed)
            chk.add_tlc("%s exhaustive: repaired CRDTResource refines CRDTDelivery (PSafety, NoInflightBroadcast, "
                        "OnlyCommitted, Delivered, Converged); %s" % (cfg, what), res)
            allok = allok and res.ok
        chk.exhaustive = allok
        # vacuity: the unrepaired variants must be rejected by the same properties
        expect = {"MCPinned10": "PSafety", "MCPinned11": "Delivered", "MCNaive11": "Delivered"}
        for cfg, prop in expect.items():
            res = V.tlc(work, "MCCRDT", cfg=cfg + ".cfg", workers=4, timeout=1800, deadlock=False)
            if res.violation is None and res.error and "Temporal properties" in res.error and "violated" in res.error:
                res.violation, res.error = res.error, None  # TLC names the properties in this message
            s = res.summary("%s (expected counterexample: the unrepaired design violates %s)" % (cfg, prop))
            chk.tlc_jobs.append(s)
            found = bool(res.violation) and (prop in res.violation or (prop == "PSafety" and "Action property" in res.violation))
            chk.notes["model_counterexample_" + cfg] = found
            if not found:
                chk.inconclusive.append("vacuity: %s was expected to violate %s on the model and did not (%s)" % (
                    cfg, prop, res.error or "no violation"))

    phase("design_level_tlc")
    # 2. cases --------------------------------------------------------------------------------
    if chk.replay:
        rp = json.load(open(chk.replay))
        cases, gen_stats = [rp["case"]["case"]], {}
    else:
        cases, gen_stats = make_cases(chk, work, rng)
    if not hook:
        chk.gaps.append("hook H3 (patches/C13-hook-crdt.diff) is not in the tree: ticks and merges can be neither gated "
                        "nor counted; only free-running cases are executed and Delivered/Converged are NOT decided")
        cases = [c for c in cases if c["mode"] == "free"]
    by_id = {c["id"]: c for c in cases}

    phase("generators")
    # 3. real code ----------------------------------------------------------------------------
    drv = V.build_driver("c13drv", chk.bindir, tags="verif,verifh3" if hook else "verif")
    lines = run_driver(chk, drv, cases, parts=1 if chk.replay else (4 if quick else 8))
    phase("build_and_drive_real_code")
    segs = V.split_cases(lines)
    nhang = len([ln for ln in lines if ln.get("e") == "hang"])
    if len(segs) != len(cases):
        if not nhang:
            raise V.Inconclusive("driver recorded %d cases of %d" % (len(segs), len(cases)))
        # the driver gives up after a few cases that ended in a watchdog expiry; what was recorded is still judged
        chk.inconclusive.append("driver stopped early: %d cases of %d recorded, %d ended in a watchdog expiry" % (
            len(segs), len(cases), nhang))
    clean = []
    for s in segs:
        bad = [ln for ln in s if ln.get("e") in ("panic", "hang")]
        if bad:
            chk.inconclusive.append("case %s (%s): %s: %s" % (s[0].get("case"), seg_key(s), bad[0]["e"],
                                                              bad[0].get("what") or bad[0].get("msg")))
        else:
            clean.append(s)

    # 4. P-level verdicts (TLC) -----------------------------------------------------------------
    nchunks = 4 if quick else 12
    obs = V.fold_traces(work, "CRDTObs", "CRDTObs.cfg", clean, timeout=3000, chunks=nchunks, max_rounds=8)
    chk.states += obs["states"]
    chk.transitions += obs["transitions"]
    chk.traces += obs["accepted"]
    for e in obs["errors"]:
        chk.inconclusive.append("CRDTObs: " + e)
    for r in obs["rejected"]:
        seg = r["seg"]
        inv = next((nm for nm in INVS if ("Invariant " + nm + " ") in r["text"]), None)
        case = by_id.get(seg[0].get("case"))
        if inv is None:
            # Settles (the driver's claim of quiescence is not borne out by the events) or a line no
            # action accepts: the harness is at fault, not the code
            chk.inconclusive.append("CRDTObs did not accept case %s (%s) at event %d: %s" % (
                seg[0].get("case"), seg_key(seg), r["line_in_seg"], r["text"]))
            continue
        upto = seg[:r["line_in_seg"]]
        cmds = [ln["c"] for ln in upto if ln.get("e") == "cmd"]
        chk.violation("C13:%s:%s" % (inv, seg_key(seg)),
                      "real NewCRDT nodes violate %s (case %s, %s; commands so far: %s; offending event: %s)" % (
                          inv, seg[0].get("case"), seg_key(seg), " ".join(cmds[-14:]),
                          json.dumps(seg[r["line_in_seg"] - 1]) if 0 < r["line_in_seg"] <= len(seg) else "?"),
                      {"case": case, "events": upto[-60:], "event_index": r["line_in_seg"], "tlc": r["text"]})

    phase("fold_CRDTObs")
    # 5. M-level conformance (drift only) ---------------------------------------------------------
    groups = {}
    for s in clean:
        h = s[0]
        if h.get("mode") != "gated":
            continue
        cfg = "TraceN%d%s" % (h["nn"], ("V" + "".join(map(str, h["virt"]))) if h.get("virt") else "")
        groups.setdefault(cfg, []).append(s)
    m_acc = 0
    for cfg, gs in sorted(groups.items()):
        if not os.path.exists(os.path.join(work, cfg + ".cfg")):
            chk.gaps.append("no M-level trace configuration " + cfg)
            continue
        mt = V.fold_traces(work, "CRDTResourceTrace", cfg + ".cfg", gs, timeout=3000, chunks=max(1, nchunks // 2),
                           max_rounds=5)
        chk.states += mt["states"]
        chk.transitions += mt["transitions"]
        m_acc += mt["accepted"]
        for r in mt["rejected"][:12]:
            seg = r["seg"]
            chk.drift.append({"spec": "CRDTResource.tla", "case": seg[0].get("case"), "class": seg_key(seg),
                              "event": r["line_in_seg"],
                              "line": seg[r["line_in_seg"] - 1] if 0 < r["line_in_seg"] <= len(seg) else None,
                              "text": r["text"]})
        for e in mt["errors"]:
            chk.drift.append({"spec": "CRDTResource.tla", "cfg": cfg, "error": e})
    phase("fold_CRDTResourceTrace")
    chk.notes["phase_wall_s"] = phases
    chk.notes["m_level_traces_accepted"] = m_acc
    chk.notes["gated_cases"] = sum(len(g) for g in groups.values())
    skips = [ln for s in clean for ln in s if ln.get("e") == "skip"]
    chk.notes["commands_not_applicable_on_code"] = len(skips)
    for s in clean:
        for ln in s:
            if ln.get("e") == "drift" and len(chk.drift) < 40:
                chk.drift.append({"spec": "CRDTResource.tla", "case": s[0].get("case"), "class": seg_key(s),
                                  "text": "driver: " + str(ln.get("what"))})

    # 6. evidence -------------------------------------------------------------------------------
    chk.notes["generator"] = gen_stats
    chk.notes["hook_H3_present"] = hook
    chk.notes["cases"] = {"total": len(cases), "gated": len([c for c in cases if c["mode"] == "gated"]),
                          "free": len([c for c in cases if c["mode"] == "free"])}
    chk.notes["events_recorded"] = len(lines)
    for s in clean[:2] + clean[len(clean) // 2:len(clean) // 2 + 2] + clean[-2:]:
        chk.sample({"case": s[0], "events": s[1:40]})
    chk.assumptions += [
        "TLC / SANY / CommunityModules Json",
        "harness proxies (RPC servers named CRDTRPCReceiver) relay states unchanged; gob round trip of CRDT values is C12's subject",
        "views: every node writes recognisable updates (GCounter: 10^(k-1); AWORSet: elements 100k+s), decoded to knowledge vectors in TLA+",
        "hook H3 calls are placed as in patches/C13-hook-crdt.diff (tick before broadcast(), merged under stateLock)",
        "liveness is decided at the driver's settle point, counted in hook events: >= 3 ticker iterations begun after the "
        "last commit returned, every state handed over reported merged (CRDTObs!SettleOK re-checks the count)",
    ]
    chk.gaps += ["peers that are down when the update is made and come up later (outside C13's quantifier)",
                 "LWWSet values and removals (value semantics are C12's subject); shipped gcounter/shopcart archetypes "
                 "are not run here (fixed ports)"]
    return chk.finish(rule="gated: fixed regression schedules + walks covering every edge of the TLC state graphs of "
                           "CRDTGen (%s) + random walks, each replayed on real NewCRDT nodes (GCounter and AWORSet) with "
                           "ticks/merges gated by hook H3 and RPCs held by proxies, then settled; free: seeded random "
                           "operations against free-running tickers (2-3 nodes, 15%% failing calls in a third); every "
                           "event folded by TLC into CRDTObs.tla (verdicts) and CRDTResourceTrace.tla (conformance)"
                           % ", ".join(sorted(gen_stats)))
