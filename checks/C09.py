"""C09 -- Raft KV clients observe a linearizable key-value store.

P-spec: spec/C09/KVLin.tla -- linearizability of a recorded Put/Get history decided by TLC as a search.
Histories come from the generated raftkvs archetypes (systems/raftkvs/raftkvs.go, all server archetypes
and 2-3 AClient instances) run behind the scheduler gate over a per-link FIFO network with seeded
adversarial schedules: client time-outs and retries, leader changes, duplicate responses, crash-stop of a
minority. Invocation = the client takes a request (clientLoop commits), response = it hands the answer
to respCh; stamps are positions in the global commit order. TLC simulation behaviours of RaftFIFO.tla
(spec/C08) are also replayed through the generated code and their histories judged the same way.
"""
import os, shutil
import vcommon as V
import tracegen as T
import sysrun as S

C08 = __import__("importlib").import_module  # placeholder to keep linters quiet


def run(chk):
    quick = chk.quick()
    work = os.path.join(chk.tmp, "spec")
    V.copy_specs(os.path.join(V.SPEC, "C09"), work)
    V.copy_specs(os.path.join(V.SPEC, "C08"), work)
    shutil.copy(os.path.join(V.REPO, "systems/raftkvs/raftkvs.tla"), work)
    drv = V.build_driver("sysdrv", chk.bindir)

    # design-level sanity of the checker itself: a stale read and a lost update must be rejected (vacuity guard)
    guards = [
        {"ops": [{"c": "1", "kind": "put", "key": "k", "val": "a", "inv": 1, "ret": 2, "ok": True, "rval": "a"},
                 {"c": "1", "kind": "put", "key": "k", "val": "b", "inv": 3, "ret": 4, "ok": True, "rval": "b"},
                 {"c": "2", "kind": "get", "key": "k", "val": "", "inv": 5, "ret": 6, "ok": True, "rval": "a"}], "meta": "stale read", "anomalies": []},
        {"ops": [{"c": "1", "kind": "put", "key": "k", "val": "a", "inv": 1, "ret": 2, "ok": True, "rval": "a"},
                 {"c": "2", "kind": "get", "key": "k", "val": "", "inv": 3, "ret": 4, "ok": False, "rval": ""}], "meta": "lost update", "anomalies": []},
        {"ops": [{"c": "1", "kind": "put", "key": "k", "val": "a", "inv": 1, "ret": 4, "ok": True, "rval": "a"},
                 {"c": "2", "kind": "get", "key": "k", "val": "", "inv": 2, "ret": 3, "ok": True, "rval": "a"}], "meta": "concurrent: fine", "anomalies": []},
    ]
    probe = V.Check.__new__(V.Check)
    probe.__dict__.update(chk.__dict__)
    probe.states = probe.transitions = probe.traces = 0
    probe.inconclusive = []
    gbad = S.check_linearizable(probe, work, guards, chunks=1)
    chk.notes["checker_guard"] = {"rejected": sorted(gbad), "expected": [0, 1]}
    if sorted(gbad) != [0, 1] or probe.inconclusive:
        raise V.Inconclusive("KVLin guard histories not judged as expected: %s %s" % (gbad, probe.inconclusive))

    total_ops = 0
    nhist = 0

    def judge(hists, what):
        nonlocal total_ops, nhist
        for h in hists:
            for a in h["anomalies"]:
                chk.violation("C09:anomaly:%s" % a["what"].replace(" ", "-"), "%s: %s" % (what, a["what"]), {"what": what, "meta": h["meta"], "anomaly": a, "ops": h["ops"]})
        bad = S.check_linearizable(chk, work, hists, chunks=6, timeout=1200)
        for b in bad:
            h = hists[b]
            kinds = sorted({o["kind"] for o in h["ops"]})
            chk.violation("C09:not-linearizable:%s:clients=%d" % (what.split()[0], len({o["c"] for o in h["ops"]})),
                          "%s: the history of acknowledged operations is not linearizable (KVLin search exhausted)" % what,
                          {"what": what, "meta": h["meta"], "ops": h["ops"]})
        total_ops += sum(len(h["ops"]) for h in hists)
        nhist += len([h for h in hists if h["ops"]])
        big = max(hists, key=lambda h: len(h["ops"])) if hists else None
        if big and big["ops"]:
            chk.sample({"what": what, "policy": big["meta"].get("policy"), "seed": big["meta"].get("seed"), "ops": big["ops"][:10]})

    # hot = 1: the environment offers requests on one key only (Puts overwrite each other, every Get sees the outcome)
    plans = [(3, 3, 1, 12, 1200, 2, 0), (3, 3, 1, 24, 1500, 2, 1)] if quick else [
        (3, 3, 1, 30, 2000, 2, 0), (3, 3, 1, 40, 2500, 2, 1), (3, 2, 1, 30, 2000, 3, 1), (5, 3, 2, 16, 2500, 2, 1), (2, 2, 0, 16, 1200, 2, 1), (1, 2, 0, 6, 400, 2, 0)]
    for (n, clients, maxfail, runs, steps, strings, hot) in plans:
        args = "fifo=1,clients=%d,maxfail=%d,fail=%d,buffer=3,strings=%d,hotkey=%d" % (clients, maxfail, 1 if maxfail else 0, strings, hot)
        out = S.drive(chk, drv, "raftkvs", n, "biased", runs, steps, args=args, tag="-h%d%d%d" % (n, clients, hot))
        judge(S.histories_from_steps(out), "executions n=%d clients=%d maxfail=%d%s" % (n, clients, maxfail, " one-key workload" if hot else ""))

    # TLC-chosen schedules: simulation behaviours of RaftFIFO replayed through the generated code
    import importlib.util
    spec = importlib.util.spec_from_file_location("c08", os.path.join(V.VERIF, "checks", "C08.py"))
    c08 = importlib.util.module_from_spec(spec); spec.loader.exec_module(c08)
    res, behs = T.simulate_behaviours(work, "RaftFIFO", "MC_n3_2c_sim.cfg", 4 if quick else 60, 150 if quick else 250, chk.seed, timeout=1500)
    chk.add_tlc("RaftFIFO MC_n3_2c_sim behaviours (2 clients) for guided replay", res)
    behs = [[dict(x, state=c08._drop_var(x["state"], "order")) for x in b] for b in behs if b]
    if behs:
        followed, total, gout = S.guided(chk, "C09", drv, work, "raftkvs", 3, "fifo=1,clients=2,maxfail=1,fail=1,buffer=3,strings=2",
                                         behs, "raftkvs guided n=3 clients=2", as_violation=False)
        chk.notes["guided_behaviours_followed"] = "%d/%d" % (followed, total)
        judge(S.histories_from_steps(gout), "guided TLC behaviours n=3 clients=2")
    chk.notes["histories"] = nhist
    chk.notes["operations"] = total_ops
    chk.assumptions += ["TLC/SANY/Json", "per-link FIFO network (the property's quantifier)", "logical stamps = positions in the global commit order of the gated execution",
                        "operations pending at the end may take effect or not"]
    chk.gaps.append("real bootstrap clients over relaxed mailboxes are not driven by this check")
    chk.gaps.append("histories with a leader change right after overwriting Puts of one key are rare in seeded schedules: a store that goes stale on followers only "
                    "(seed C09-A) is decided by C08 (ApplyLogOK in walk successor states) and C02 (step conformance), not by the histories judged here")
    return chk.finish(rule="client histories (2-3 concurrent clients, 2-3 keys, Put/Get mix chosen by the spec's RequestsChannel) of seeded adversarial executions of the generated raftkvs archetypes, "
                           "each judged by TLC on KVLin.tla; plus histories of TLC simulation behaviours replayed through the generated code")
