"""C07 -- variables shared between archetypes of a process are serializable.

spec/C07/TxnSer.tla           P-spec and judge: strict serializability of the committed sections as a search
                              (+ SoloProgress: a section attempted while every other sharer is between sections
                              is not refused access on all of its K attempts; + SumPreserved for bank cases)
spec/C07/LocalShared.tla      M-spec of distsys/resources/localshared.go (timed strict 2PL); exhaustively checked
                              (Serializable, QuiescentAgree, NoLeak, NoIndefiniteBlock, deadlock freedom) and used
                              as GENERATOR: every transition of the history-free graph is exported, the check covers
                              every edge with walks, c07drv forces each walk on real MakeLocalShared() resources
spec/C07/LocalSharedTrace.tla M-level trace spec (conformance of the gated recordings; rejection = model drift)
harness/cmd/c07drv            gated replay + free-running stress on the real LocalSharedManager under the real Run

"Dying sharer" family (added after seed C07-A): a section may end in a fatal error (the body returns a failed assertion;
MPCalContext.Run returns it without Commit/Abort and closes the archetype's resources). Model: action EndDie, bounded by
MaxDie (0 in the older configurations); TxnSer: NoDirtyRead, SoloProgress not demanded for what a dead sharer took with it;
driver: step "die" (walks of the GenDie* graphs, directed cases), DiePct in stress cases.
"""
import collections
import concurrent.futures
import json
import os
import random
import re
import time

import vcommon as V

ID = "C07"

# MCDesignDie*: MaxDie = 1 (one sharer may die inside a section; pinned tree: it keeps its locks for ever);
# MCDesignDieRestore: Close() restores and releases -- a different design that preserves the property as well
# (the states of MCDesignDieA in which nobody has died are exactly the state space of MCDesignA: quick runs the superset)
DESIGN_QUICK = ["MCDesignDieA", "MCDesignB"]
DESIGN_THOROUGH = ["MCDesignA", "MCDesignB", "MCDesignDieA", "MCDesignE", "MCDesignD", "MCDesignC", "MCDesignDieE",
                   "MCDesignDieB", "MCDesignDieRestore"]
MUTANTS = [("MCMutNoTimeout", "Deadlock"), ("MCMutReleaseEarly", "Serializable"),
           ("MCMutNoRestore", "QuiescentAgree"), ("MCMutCommitLeak", "NoLeak"),
           ("MCMutCloseRelease", "Serializable")]          # Close() releases without restoring (= seed C07-A)
MUTANTS_THOROUGH = [("MCMutCloseReleaseQ", "QuiescentAgree")]
# generator graphs: (cfg, family, NA, LockOf, full cover in quick?, walks through a death in quick / thorough)
# The GenDie* graphs (MaxDie = 1) contain the graphs of the same configuration without deaths (GenFin*.cfg, kept for
# reference) as the part in which nobody has died; both parts are covered, separately.
GENS = [("GenDie2x12", "fin", 2, [1, 2], True, (None, None)), ("GenDie2x112", "fin", 2, [1, 1, 2], True, (30, None)),
        ("GenLong2x12", "long", 2, [1, 2], True, (0, 0)), ("GenDie3x12", "fin", 3, [1, 2], False, (8, 60)),
        ("GenLong3x112", "long", 3, [1, 1, 2], False, (0, 0)), ("GenFin3x123", "fin", 3, [1, 2, 3], False, (0, 0))]
# short JVM runs: C1 only and two GC threads cost about half the CPU time of the defaults
JVM = ["-XX:TieredStopAtLevel=1", "-XX:ParallelGCThreads=2"]
KINDS1 = ["plain", "pers", "map", "fn", "mappers", "mapfn", "persfn"]   # managers guarding one cell
KINDSN = ["fn", "mapfn", "persfn"]                                      # function-valued variables
FIN_TIMEOUTS = [20, 30, 0, 20, 40, 5]   # ms; 0 = the constructor's default (50 ms)
LONG_TIMEOUT = 4000


# --------------------------------------------------------------------------- graph -> walks

class Graph:
    def __init__(self, path, nodead=False):
        """nodead: the part of the graph in which no sharer has died (= the graph of the same
        configuration with MaxDie = 0: a death is never undone, so nothing leads back into it)"""
        self.sid, self.edges, self.out = {}, [], collections.defaultdict(list)
        self.init, self.idle = None, set()
        self.dead_edges = set()      # the death itself and whatever happens after it
        with open(path) as f:
            for line in f:
                line = line.strip()
                if not line:
                    continue
                e = json.loads(line)
                if isinstance(e, str):
                    e = json.loads(e)
                after_death = e["act"]["t"] == "die" or '"dead"' in e["from"]
                if nodead and after_death:
                    continue
                a, b = self._id(e["from"]), self._id(e["to"])
                if after_death:
                    self.dead_edges.add(len(self.edges))
                if self.init is None:       # TLC ran with one worker: the first edge leaves the initial state
                    self.init = a
                    self.idle.add(a)
                self.out[a].append(len(self.edges))
                self.edges.append((a, b, e["act"]))
                if e["idle"]:               # quiescent: every sharer between sections
                    self.idle.add(b)
        # states from which a quiescent state can be reached (long-timeout graphs contain deadlocks)
        rev = collections.defaultdict(list)
        for a, b, _ in self.edges:
            rev[b].append(a)
        self.live, todo = set(self.idle), list(self.idle)
        while todo:
            s = todo.pop()
            for p in rev[s]:
                if p not in self.live:
                    self.live.add(p)
                    todo.append(p)
        self.usable = [k for k, (a, b, _) in enumerate(self.edges) if a in self.live and b in self.live]

    def _id(self, s):
        if s not in self.sid:
            self.sid[s] = len(self.sid)
        return self.sid[s]

    def path_to(self, src, want):
        """shortest edge path (inside the live part) from src to a state satisfying want(state)"""
        if want(src):
            return []
        prev, todo = {src: None}, collections.deque([src])
        while todo:
            s = todo.popleft()
            for k in self.out[s]:
                b = self.edges[k][1]
                if b in prev or b not in self.live:
                    continue
                prev[b] = (s, k)
                if want(b):
                    out = []
                    while prev[b] is not None:
                        s2, k2 = prev[b]
                        out.append(k2)
                        b = s2
                    return out[::-1]
                todo.append(b)
        return None

    def cover(self, rng, max_len, max_walks=None, only=None):
        uncovered = set(k for k in self.usable if only is None or k in only)
        fresh_out = collections.defaultdict(set)
        for k in uncovered:
            fresh_out[self.edges[k][0]].add(k)
        walks = []
        while uncovered:
            cur, walk = self.init, []
            before = len(uncovered)
            while len(walk) < max_len:
                if not fresh_out[cur]:
                    p = self.path_to(cur, lambda s: bool(fresh_out[s]))
                    if p is None:
                        break
                    for k in p:
                        walk.append(k)
                        cur = self.edges[k][1]
                    continue
                k = rng.choice(sorted(fresh_out[cur]))
                fresh_out[cur].discard(k)
                uncovered.discard(k)
                walk.append(k)
                cur = self.edges[k][1]
            tail = self.path_to(cur, lambda s: s in self.idle) or []
            for k in tail:
                if k in uncovered:
                    uncovered.discard(k)
                    fresh_out[self.edges[k][0]].discard(k)
                walk.append(k)
            if len(uncovered) == before:
                break
            walks.append(walk)
            if max_walks and len(walks) >= max_walks:
                break
        return walks, len(uncovered)

    def random_walk(self, rng, n, die_after=None):
        """die_after = k: nobody dies during the first k steps, then the first sharer that can die
        holding a variable does (if one gets there before the walk is over), and the walk goes on"""
        cur, walk, died = self.init, [], False
        while len(walk) < n:
            ks = [k for k in self.out[cur] if self.edges[k][1] in self.live]
            if die_after is not None and not died:
                dies = [k for k in ks if self.edges[k][2]["t"] == "die"]
                ks = [k for k in ks if self.edges[k][2]["t"] != "die"]
                if len(walk) >= die_after:
                    # the dying sharer has accessed something (its nops > 0 <=> it holds a lock)
                    dies = [k for k in dies if self._holds(cur, self.edges[k][2]["a"])]
                    if dies:
                        ks = dies
            if not ks:
                break
            k = rng.choice(ks)
            died = died or self.edges[k][2]["t"] == "die"
            walk.append(k)
            cur = self.edges[k][1]
        walk += self.path_to(cur, lambda s: s in self.idle) or []
        return walk

    def _holds(self, state, a):
        if not hasattr(self, "_names"):
            self._names = {v: k for k, v in self.sid.items()}
        m = re.match(r"<<<<([0-9, ]*)>>", self._names[state])      # the lock vector comes first
        return bool(m) and str(a) in [x.strip() for x in m.group(1).split(",")]


def concretize(g, walk, cid, fam, na, lockof, rng, salt):
    nm = max(lockof)
    kinds = []
    for m in range(1, nm + 1):
        ncell = sum(1 for x in lockof if x == m)
        pool = KINDS1 if ncell == 1 else KINDSN
        kinds.append(pool[(salt + 3 * m + rng.randrange(2)) % len(pool)])
    timeout = LONG_TIMEOUT if fam == "long" else FIN_TIMEOUTS[salt % len(FIN_TIMEOUTS)]
    init = [10 * (c + 1) for c in range(len(lockof))]
    steps, nw = [], collections.Counter()
    for k in walk:
        act = dict(g.edges[k][2])
        if act["t"] in ("acc", "block"):
            v = 0
            if act["k"] == "w":
                nw[act["a"]] += 1
                v = 1000 * act["a"] + nw[act["a"]]
            act["v"] = v
        steps.append(act)
        # now and then GetState() is called while a section holds the variable (it has to wait, and to show committed values only)
        if act["t"] == "acc" and act["k"] == "w" and rng.random() < 0.25:
            steps.append({"t": "obsa", "m": lockof[act["c"] - 1]})
    return {"id": cid, "mode": "gated", "fam": fam, "na": na, "lockof": lockof, "kinds": kinds, "init": init,
            "timeout_ms": timeout, "steps": steps, "probes": 3}


def directed_die_cases(rng, salt):
    """Hand-written walks around a death (written as the MODEL of the pinned tree expects them: a survivor that needs a
    variable the dead sharer took with it waits and is refused; the driver records whatever really happens)."""
    def B(a): return {"t": "begin", "a": a}
    def A(a, k, c, v=0): return {"t": "acc", "a": a, "k": k, "c": c, "v": v}
    def W(a, k, c, v=0): return {"t": "block", "a": a, "k": k, "c": c, "v": v}
    def T(a): return {"t": "timeout", "a": a}
    def E(a, how="commit"): return {"t": "end", "a": a, "how": how}
    def D(a): return {"t": "die", "a": a}
    def O(m): return {"t": "obs", "m": m}
    def OA(m): return {"t": "obsa", "m": m}
    plans = [
        # dies after writing x; a survivor reads x (refused), then reads and writes y and commits
        ("die-wx", 2, [1, 2], False,
         [B(1), A(1, "w", 1, 1001), D(1), B(2), W(2, "r", 1), T(2), B(2), A(2, "r", 2), A(2, "w", 2, 2001), E(2), O(2)]),
        # dies after writing x and y; one survivor wants y then x, another writes x
        ("die-wxy", 3, [1, 2], False,
         [B(2), A(2, "w", 1, 2001), A(2, "w", 2, 2002), E(2), B(1), A(1, "r", 1), A(1, "w", 1, 1001), A(1, "w", 2, 1002), D(1),
          B(2), W(2, "r", 2), T(2), B(3), W(3, "w", 1, 3001), T(3), B(2), W(2, "r", 1), T(2)]),
        # a survivor holds y, then needs x which the dead sharer took: it is refused and its write of y is undone
        ("die-wx-survivor-holds-y", 2, [1, 2], False,
         [B(1), A(1, "w", 1, 1001), B(2), A(2, "w", 2, 2001), D(1), W(2, "r", 1), T(2), O(2), B(2), A(2, "r", 2), E(2)]),
        # a survivor is already waiting for x when its holder dies
        ("die-waiter", 2, [1, 2], False,
         [B(1), A(1, "r", 1), A(1, "w", 1, 1001), B(2), A(2, "r", 2), W(2, "r", 1), D(1), T(2), B(2), A(2, "w", 2, 2001), E(2)]),
        # GetState() through a survivor is queued behind the section when its sharer dies
        ("die-getstate", 2, [1, 2], False,
         [B(1), A(1, "w", 1, 1001), OA(1), D(1), B(2), A(2, "r", 2), E(2), O(2)]),
        # function-valued variable: dies after updating one element
        ("die-fn", 2, [1, 1, 2], False,
         [B(1), A(1, "r", 1), A(1, "w", 2, 1001), D(1), B(2), A(2, "r", 3), W(2, "r", 2), T(2), B(2), A(2, "w", 3, 2001), E(2)]),
        # bank: 3 has left x and not reached y when the sharer dies; a survivor audits (y first, then x)
        ("die-bank", 2, [1, 2], True,
         [B(2), A(2, "r", 1), A(2, "r", 2), E(2), B(1), A(1, "r", 1), A(1, "w", 1, 97), D(1),
          B(2), A(2, "r", 2), W(2, "r", 1), T(2)]),
        # bank, both cells written (the sum holds, the section never committed)
        ("die-bank-both", 2, [1, 2], True,
         [B(1), A(1, "r", 1), A(1, "r", 2), A(1, "w", 1, 95), A(1, "w", 2, 105), D(1), B(2), W(2, "r", 1), T(2)]),
    ]
    out = []
    for i, (name, na, lockof, bank, steps) in enumerate(plans):
        for rep_ in range(2):
            salt += 1
            nm = max(lockof)
            kinds = []
            for m in range(1, nm + 1):
                ncell = sum(1 for x in lockof if x == m)
                pool = KINDS1 if ncell == 1 else KINDSN
                kinds.append(pool[(salt + 3 * m + rep_) % len(pool)])
            out.append({"id": "%s-%d" % (name, rep_), "mode": "gated", "fam": "fin", "na": na, "lockof": lockof, "kinds": kinds,
                        "init": [100] * len(lockof) if bank else [10 * (c + 1) for c in range(len(lockof))],
                        "timeout_ms": [20, 10, 0, 30][(salt + i) % 4], "steps": steps, "probes": 3, "bank": bank})
    return out, salt


def stress_case(cid, rng, bank, die=False):
    if die:
        # a sharer that has written dies inside its section; the survivors can only be refused what it took with it,
        # so their attempts are few and the timeouts short
        c = stress_case(cid, rng, bank)
        c["fam"] += "-die"
        c["timeout_ms"] = rng.choice([5, 10])
        c["stress"].update({"die_pct": rng.choice([10, 20, 35]), "max_die": 1, "max_att": 40, "commits": rng.choice([4, 6])})
        return c
    na = rng.choice([2, 3, 4, 5, 8])
    lockof = rng.choice([[1, 2], [1, 2, 3], [1, 1, 2], [1, 2, 2, 3], [1, 1], [1, 2, 3, 4]])
    nm = max(lockof)
    kinds = []
    for m in range(1, nm + 1):
        ncell = sum(1 for x in lockof if x == m)
        kinds.append(rng.choice(KINDS1 if ncell == 1 else KINDSN))
    init = [100] * len(lockof) if bank else [10 * (c + 1) for c in range(len(lockof))]
    return {"id": cid, "mode": "stress", "fam": "stress-bank" if bank else "stress-unique", "na": na, "lockof": lockof,
            "kinds": kinds, "init": init, "timeout_ms": rng.choice([5, 20, 0, 10]), "probes": 3,
            "stress": {"commits": rng.choice([6, 8, 10]), "max_att": 200, "max_ops": rng.choice([2, 3, 4]),
                       "abort_pct": rng.choice([0, 10, 25]), "hold_pct": rng.choice([0, 20, 50]),
                       "hold_us": rng.choice([200, 2000, 8000]), "seed": rng.randrange(1 << 30), "bank": bank}}


# --------------------------------------------------------------------------- the check

def run(chk):
    # every TLC job and the driver build start at once; the generator graphs are awaited first, the design-level runs and
    # the vacuity guards are collected at the end (they do not depend on the code under test). Nothing is left running.
    ex = concurrent.futures.ThreadPoolExecutor(max_workers=32)
    try:
        return _run(chk, ex)
    finally:
        ex.shutdown(wait=True)


def _run(chk, ex):
    quick = chk.quick()
    rng = random.Random(chk.seed * 7919 + 7)
    phase, t_phase = {}, [time.time()]

    def lap(name):
        phase[name] = round(time.time() - t_phase[0], 1)
        t_phase[0] = time.time()
    work = os.path.join(chk.tmp, "spec")
    V.copy_specs(os.path.join(V.SPEC, ID), work)

    replay_case = None
    if chk.replay:
        replay_case = json.load(open(chk.replay))["case"]["input"]

    # ---- 1. design level (exhaustive) + vacuity guards + generator graphs, in parallel
    design = DESIGN_QUICK if quick else DESIGN_THOROUGH
    gens = [g for g in GENS if (not quick) or g[4] or g[0] == "GenDie3x12"]
    mutants = MUTANTS + ([] if quick else MUTANTS_THOROUGH)
    jobs = [("design", c) for c in design] + [("mut", c) for c, _ in mutants]
    if not replay_case:
        jobs += [("gen", g[0]) for g in gens]

    def tlc_job(job):
        kind, cfg = job
        d = os.path.join(chk.tmp, "tlc-" + cfg)
        V.copy_specs(work, d)
        if kind == "gen":
            return job, V.tlc(d, "MCLocalShared", cfg=cfg + ".cfg", workers=1, timeout=2400, deadlock=False, jvm=JVM), d
        return job, V.tlc(d, "MCLocalShared", cfg=cfg + ".cfg", workers=4 if kind == "design" else 2,
                          timeout=3000 if kind == "design" else 900, deadlock=True,
                          jvm=JVM if quick or kind == "mut" else None), d

    jobs.sort(key=lambda j: j[0] != "gen")          # the generator graphs are needed first
    futures = {job: ex.submit(tlc_job, job) for job in jobs}
    build = ex.submit(V.build_driver, "c07drv", chk.bindir)

    class Results:
        def __getitem__(self, job):
            _, res, d = futures[job].result()
            return res, d
    results = Results()

    def account_models():
        all_ok = True
        for c in design:
            res, _ = results[("design", c)]
            chk.add_tlc("%s exhaustive: timed 2PL => Serializable, QuiescentAgree, NoLeak, NoIndefiniteBlock, no deadlock" % c, res)
            all_ok = all_ok and res.ok
        chk.exhaustive = all_ok
        expected = dict(mutants)
        for c, _ in mutants:
            res, _ = results[("mut", c)]
            chk.tlc_jobs.append(res.summary("%s (vacuity guard: broken design must violate %s)" % (c, expected[c])))
            if res.timed_out or res.error:
                chk.inconclusive.append("vacuity guard %s did not run: %s" % (c, res.error or "timeout"))
            elif not (res.violation and expected[c] in res.violation):
                chk.inconclusive.append("vacuity guard %s: the broken design was not rejected by %s (%s)" % (c, expected[c], res.violation))
        chk.notes["vacuity_guards_rejected"] = [c for c, _ in mutants if results[("mut", c)][0].violation]

    # ---- 2. cases
    cases = []
    cover_note = {}
    if replay_case:
        cases = [replay_case]
    else:
        salt = chk.seed
        for name, fam, na, lockof, full_quick, die_budget in gens:
            res, d = results[("gen", name)]
            chk.add_tlc("%s generator graph (every transition exported)" % name, res)
            path = os.path.join(d, "edges-%s.ndjson" % name)
            if not res.ok or not os.path.exists(path):
                raise V.Inconclusive("generator %s produced no graph: %s" % (name, res.error or res.violation))
            has_die = name.startswith("GenDie")
            g = Graph(path, nodead=has_die)       # the part without deaths (for GenDie*: = the graph of GenFin*)
            walks = []
            if full_quick or not quick:
                # the largest graph is covered as far as the budget goes (the rest is reported as uncovered)
                walks, left = g.cover(rng, 80 if na == 2 else 150, max_walks=350 if len(g.edges) > 50000 else None)
                cover_note[name] = {"edges": len(g.edges), "usable": len(g.usable), "uncovered": left, "walks": len(walks),
                                    "dead_end_edges_excluded": len(g.edges) - len(g.usable)}
            nrand = (6 if quick else 40)
            rw = [g.random_walk(rng, rng.choice([30, 60, 120])) for _ in range(nrand)]
            if name not in cover_note:
                cover_note[name] = {"edges": len(g.edges), "usable": len(g.usable), "walks": 0, "random_walks": nrand}
            else:
                cover_note[name]["random_walks"] = nrand
            for i, w in enumerate(walks + rw):
                salt += 1
                cases.append(concretize(g, w, "%s-%s%d" % (name, "w" if i < len(walks) else "r", i), fam, na, lockof, rng, salt))
            if has_die:
                # the death of a sharer and everything after it: every walk holds one death (MaxDie = 1), so every
                # `die` edge needs a walk of its own
                gd = Graph(path)
                budget = die_budget[0 if quick else 1]
                note = {"edges_at_or_after_a_death": len(gd.dead_edges),
                        "die_edges": sum(1 for k in gd.dead_edges if gd.edges[k][2]["t"] == "die")}
                dwalks = []
                if full_quick or not quick:
                    dwalks, dleft = gd.cover(rng, 60 if na == 2 else 100, only=gd.dead_edges,
                                             max_walks=400 if len(gd.edges) > 20000 else None)
                    note.update({"walks": len(dwalks), "uncovered": dleft})
                    if budget is not None and len(dwalks) > budget:
                        dwalks = rng.sample(dwalks, budget)
                        note["walks_run_in_this_tier"] = budget
                else:
                    dwalks = [gd.random_walk(rng, rng.choice([30, 60]), die_after=rng.choice([3, 6, 10, 15]))
                              for _ in range(budget or 0)]
                    note.update({"walks": 0, "random_walks_through_a_death": len(dwalks)})
                cover_note[name]["death"] = note
                for i, w in enumerate(dwalks):
                    salt += 1
                    cases.append(concretize(gd, w, "%s-d%d" % (name, i), "fin", na, lockof, rng, salt))
        dd, salt = directed_die_cases(rng, salt)
        cases += dd
        nstress = 16 if quick else 160
        for i in range(nstress):
            cases.append(stress_case("stress-%d" % i, rng, bank=(i % 5 in (1, 3))))
        for i in range(6 if quick else 48):
            cases.append(stress_case("stress-die-%d" % i, rng, bank=(i % 3 == 1), die=True))
    chk.notes["generator_cover"] = cover_note
    by_id = {c["id"]: c for c in cases}

    lap("generator_graphs_and_walks")
    # ---- 3. the real code
    drv = build.result()
    lap("build_driver_wait")
    gated = [c for c in cases if c["mode"] == "gated"]
    stress = [c for c in cases if c["mode"] == "stress"]
    hist, trace, events = [], [], []

    def drive(tag, cs, par, timeout):
        if not cs:
            return
        cpath = os.path.join(chk.tmp, "cases-%s.ndjson" % tag)
        with open(cpath, "w") as f:
            for c in cs:
                f.write(json.dumps(c) + "\n")
        outs = [os.path.join(chk.tmp, "%s-%s.ndjson" % (k, tag)) for k in ("hist", "trace", "ev")]
        rc, o = V.run([drv, "-cases", cpath, "-hist", outs[0], "-trace", outs[1], "-ev", outs[2], "-par", str(par)],
                      timeout=timeout)
        if rc != 0:
            raise V.Inconclusive("c07drv (%s) failed rc=%s: %s" % (tag, rc, o[-3000:]))
        hist.extend(V.read_jsonl(outs[0]))
        trace.extend(V.read_jsonl(outs[1]))
        events.extend(V.read_jsonl(outs[2]))

    drive("gated", gated, 6, 3000)
    lap("driver_gated")
    # free-running cases one group at a time so that they really contend for the CPUs they get
    drive("stress", stress, 2, 3000)
    lap("driver_stress")

    # ---- 4. hangs / panics recorded by the driver
    per_key = collections.Counter()

    def report(key, what, obj):
        """at most three replay files per failing class; the rest is counted"""
        per_key[key] += 1
        if per_key[key] <= 3:
            chk.violation(key, what, obj)

    ran = sum(e.get("ran", 0) for e in events if e.get("e") == "summary")
    for e in events:
        k = e.get("e")
        c = by_id.get(e.get("case"), {})
        if k == "hang":
            what = e.get("what", "")
            tail = ("did not return after %d ms (lock timeout %d ms) and five further timers of the timeout's length, while "
                    "no goroutine of the case took a step" % (e.get("waited_ms", 0), e.get("timeout_ms", 0)))
            if what.startswith("GetState"):
                cls, msg = "getstate", "%s %s: a lock outlived the section that took it" % (what, tail)
            elif what.startswith("end of"):
                cls, msg = "section-end", "sharer %s: %s %s" % (e.get("a"), what, tail)
            elif what.startswith("free-running"):
                cls, msg = "stress-standstill", ("free-running sharers stopped taking any step before reaching their quota (waited %d ms, "
                                                 "lock timeout %d ms, then five idle rounds): deadlock" % (e.get("waited_ms", 0), e.get("timeout_ms", 0)))
            else:
                cls, msg = "access", ("sharer %s: %s %s: the section neither obtained access nor aborted"
                                      % (e.get("a"), what, tail))
            report("C07:hang:%s:fam=%s" % (cls, c.get("fam")), msg, {"input": c, "event": e})
        elif k == "panic":
            report("C07:panic:fam=%s" % c.get("fam"),
                   "the code under test panicked / failed in %s: %s" % (e.get("what"), e.get("msg")),
                   {"input": c, "event": e})
        elif k in ("watchdog", "setup"):
            chk.inconclusive.append("c07drv %s in case %s: %s" % (k, e.get("case"), e.get("what") or e.get("msg")))
    deviations = [e for e in events if e.get("e") == "deviation"]
    if ran < len(cases):
        chk.notes["cases_not_run_after_hangs"] = len(cases) - ran

    # ---- 5. P-level verdicts: TLC searches a strict serialization of every recorded case
    segs = V.split_cases(hist)
    # a chunk gives up after max_rounds rejections: the few hand-written and free-running cases with a death go first,
    # so that a defect of that family is reported with every kind of history it spoils, not just the most numerous one
    segs.sort(key=lambda sg: 0 if str(sg[0].get("id")).startswith("die-") else 1 if "-die" in str(sg[0].get("fam")) else 2)
    chunks = 4 if quick else 12
    obs = V.fold_traces(work, "TxnSer", "TxnSer.cfg", segs, timeout=3000, tracefile="hist.ndjson", chunks=chunks,
                        max_rounds=4, jvm=JVM if quick else None)
    lap("txnser_fold")
    chk.states += obs["states"]
    chk.transitions += obs["transitions"]
    chk.traces += obs["accepted"]
    for e in obs["errors"]:
        chk.inconclusive.append("TxnSer: " + e)
    for r in obs["rejected"]:
        seg = r["seg"]
        h = seg[0]
        c = by_id.get(h.get("id"), {})
        if r["kind"] == "stuck":
            inv = "not-serializable"
            item = seg[r["line_in_seg"]] if 0 < r["line_in_seg"] < len(seg) else None
            what = ("the committed sections and observations recorded from the real code admit no serial order consistent "
                    "with real time in which every read returns the latest earlier write: TLC's search linearized at most "
                    "%d of the %d items of case %s" % (max(r["line_in_seg"] - 1, 0), h.get("n"), h.get("id")))
            if h.get("dead"):
                what += (" (sharer %s died inside a section in this case: its section never committed and is not among the items)"
                         % ", ".join(map(str, h.get("dead"))))
        else:
            inv = ("SoloProgress" if "SoloProgress" in r["text"] else "SumPreserved" if "SumPreserved" in r["text"]
                   else "NoDirtyRead" if "NoDirtyRead" in r["text"] else "invariant")
            item = None
            what = "%s in case %s: %s" % (inv, h.get("id"), r["text"])
            if inv == "SoloProgress":
                what += " -- a probe section attempted while every other sharer was between sections was refused access on every attempt (a lock outlived the section that took it)"
            if inv == "NoDirtyRead":
                dw = {(w["c"], w["v"]) for w in h.get("deadw", [])}
                item = next((it for it in seg[1:] if any(o["k"] == "r" and (o["c"], o["v"]) in dw for o in it.get("ops", []))), None)
                what += (" -- dirty read: a committed section of a surviving sharer (or GetState()) returned a value written by the "
                         "section of sharer %s, which ended in a fatal error and never committed" % ", ".join(map(str, h.get("dead", []))))
            if h.get("dead") and inv in ("SumPreserved", "invariant"):
                what += " (sharer %s died inside a section in this case)" % ", ".join(map(str, h.get("dead")))
        report("C07:%s:mode=%s:fam=%s" % (inv, h.get("mode"), h.get("fam")),
               what, {"input": c, "history": seg, "line_in_seg": r["line_in_seg"], "tlc": r["text"], "item": item})
    if per_key:
        chk.notes["violating_cases_per_class"] = dict(per_key)

    # ---- 6. M-level conformance of the gated recordings (drift only)
    tsegs = V.split_cases(trace)
    mt = V.fold_traces(work, "LocalSharedTrace", "LocalSharedTrace.cfg", tsegs, timeout=3000, chunks=chunks, max_rounds=4,
                       jvm=JVM if quick else None)
    lap("m_level_fold")
    account_models()
    lap("design_and_guards_wait")
    chk.notes["phase_wall_s"] = phase
    chk.states += mt["states"]
    chk.transitions += mt["transitions"]
    chk.notes["m_level_traces_accepted"] = mt["accepted"]
    chk.notes["m_level_traces_total"] = len(tsegs)
    for r in mt["rejected"]:
        ev = r["seg"][r["line_in_seg"] - 1] if 0 < r["line_in_seg"] <= len(r["seg"]) else None
        chk.drift.append({"spec": "LocalShared.tla", "case": r["seg"][0].get("id"), "event_no": r["line_in_seg"], "event": ev,
                          "text": r["text"]})
    for e in mt["errors"]:
        chk.drift.append({"spec": "LocalShared.tla", "error": e})
    # the walk is a plan; where timing made the code take another (legal) branch the driver adapted
    chk.notes["driver_plan_deviations"] = len(deviations)
    chk.notes["driver_plan_deviation_kinds"] = dict(collections.Counter(e.get("what") for e in deviations))

    # ---- evidence
    ntx = sum(1 for ln in hist if ln.get("e") == "txn")
    chk.notes.update({"cases": len(cases), "gated_cases": len(gated), "stress_cases": len(stress),
                      "committed_sections_and_observations_judged": ntx,
                      "gated_steps": sum(len(c["steps"]) for c in gated),
                      "cases_with_a_death": sum(1 for sg in segs if sg[0].get("dead")),
                      "gated_deaths_planned": sum(1 for c in gated for s in c["steps"] if s["t"] == "die"),
                      "gated_timeouts_planned": sum(1 for c in gated for s in c["steps"] if s["t"] == "timeout"),
                      "gated_handoffs_planned": sum(1 for c in gated for s in c["steps"] if s["t"] == "grant"),
                      "binding_kinds": sorted({k for c in cases for k in c["kinds"]}),
                      "timeouts_ms": sorted({c["timeout_ms"] for c in cases})})
    for s in (segs[:1] + segs[len(gated) // 2:len(gated) // 2 + 1] + segs[-2:]):
        chk.sample({"case": s[0].get("id"), "mode": s[0].get("mode"), "kinds": s[0].get("kinds"), "lockof": s[0].get("lockof"),
                    "timeout_ms": s[0].get("timeout_ms"), "items": s[1:7]})
    chk.assumptions += [
        "TLC/SANY/Json/CSV modules",
        "stamps: start taken before the section's first access, end after MPCalContext reported the commit, from one atomic counter per case",
        "written values are unique per write (gated, stress-unique), so an effect of an aborted section cannot be mistaken for a committed one",
        "a dying section ends the way a failed MPCal assertion does: the body returns an error wrapping distsys.ErrAssertionFailed",
        "a hang is reported only after >= 20 s (>= 300 x the lock timeout) plus five idle rounds without any step in the case",
        "hand-built archetypes use the API generated code uses (RequireArchetypeResourceRef, iface.Read/Write with index lists, Goto)"]
    chk.gaps += ["systems/raftkvs itself is not run here (its shared-variable wiring -- plain, Persistent, toMap/IncMap, Index -- is reproduced; C08 runs the system)",
                 "crash recovery of Persistent (unimplemented in the pinned tree)"]
    return chk.finish(rule="every transition of TLC's state graphs of LocalShared.tla (%s) covered by walks and forced, step by step, on real "
                           "MakeLocalShared() resources under MPCalContext.Run (gated), plus random walks and %d free-running "
                           "stress cases (2-8 sharers, unique values / bank transfers, random aborts and pauses, in some a sharer "
                           "dies inside a section) and hand-written walks around a death; every committed "
                           "section and GetState() observation judged by TLC's serialization search TxnSer.tla"
                           % (", ".join(n for n in cover_note), len(stress)))
