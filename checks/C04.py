"""C04 -- procedure calls follow PlusCal stack semantics (incl. recursion, tail calls, refs).

spec/C04/Procs.tla        P-spec: a family of PlusCal programs with procedures; pcal translates it
                          at check time -- PlusCal itself is the oracle of call/return semantics
                          (recursion, mutual recursion, tail calls, nesting, ref parameters to
                          archetype resources, a procedure's own local/parameter lent by reference
                          to a borrower that re-enters the owner [lend, lendt], data-driven call trees)
spec/C04/ProcsData.tla    the input family (arguments, call trees), exported by TLC to the driver
spec/C04/Frames.tla       the generic frame discipline, an action property of every translation
spec/C04/MCProcs.tla      design level: exhaustive TLC over the family
spec/C04/PSData.tla,      the shipped ProcedureSpaghetti pair: process Pross1 and the procedures it reaches
         MCPS.tla         are cut out of the repository's .expectpcal (PS.tla) and re-translated by pcal
                          on every run; design-level run + guards for the driver's name tables
spec/C04/ProcTrace.tla.in trace specification (I->S), instantiated for Procs and PS: TLC walks the states
                          recorded from the real MPCalContext.Run once and writes verdict.ndjson --
                          lines it cannot consume (visible state is not the PlusCal successor / an abort
                          changed the state / Run ended elsewhere than Done) are violations (P level);
                          differences in the representation of the frames are drift (M level)
harness/cmd/c04drv        hand-built MPCalArchetype/MPCalProc tables in the code generator's shapes
                          + the shipped ProcedureSpaghetti.go, run under the real Run with an
                          abort-injecting resource
"""
import json, os, re, shutil
import vcommon as V

ID = "C04"


# --------------------------------------------------------------------------- view generator
def parse_init(translated, module):
    """Conjuncts of the Init of a pcal translation: [(section, var, op, rhs)] (rhs may span lines)."""
    m = re.search(r"^Init == (.*?)\n\n", translated, re.S | re.M)
    if not m:
        raise V.Inconclusive("cannot find Init in the pcal translation of " + module)
    sect, conj = None, []
    for line in m.group(1).splitlines():
        c = re.search(r"\(\* (Global variables|Procedure \w+|Process \w+) \*\)", line)
        if c:
            sect = c.group(1)
            line = line[c.end():]
            if not line.strip():
                continue
        mm = re.match(r"\s{0,9}/\\ (\w+) (=|\\in) (.*)$", line)
        if mm:
            if mm.group(1) in ("stack", "pc"):
                sect = "Control"
            conj.append([sect, mm.group(1), mm.group(2), mm.group(3).strip()])
        elif conj and line.strip():
            conj[-1][3] += "\n      " + line.strip()
    if not conj or conj[-1][1] != "pc":
        raise V.Inconclusive("unexpected shape of Init in the pcal translation of " + module)
    return conj


def gen_view(translated, module, view, self_id=None, globals_=None, override=None, label_view="zl", extends=()):
    """From a pcal translation build <view>.tla:
      GVars / PVars   records of the global / procedure variables printed with ToString, so that
                      values are compared in TLC's own syntax with what the Go library prints;
      PRaw            the procedure variables as values (Frames.tla);
      TInit           initial predicate; in the uniprocess case the procedure variables -- dead
                      before the first call -- hold defaultInitValue (pcal's own Init would
                      evaluate initialisers like `fk = n + 100` over defaultInitValue);
      TReset(zc)      the same as a primed action, inputs taken from a recorded "case" line, used
                      to fold many recorded executions in one TLC run."""
    conj = parse_init(translated, module)
    override = override or {}
    multi = self_id is not None
    idx = ("[%s]" % self_id) if multi else ""
    procv = [c[1] for c in conj if c[0].startswith("Procedure")]
    if globals_ is None:
        globals_ = [c[1] for c in conj if c[0] == "Global variables"]
    init, reset, caseok, init0 = [], [], [], []
    for sect, v, op, rhs in conj:
        if v in override:
            op, rhs = override[v]
        elif sect.startswith("Procedure") and not multi:
            op, rhs = "=", "defaultInitValue"
        init.append("/\\ %s %s %s" % (v, op, rhs))
        if op == "\\in":
            zrhs = re.sub(r"\b(%s)\b" % "|".join(globals_), r"zc.\1", rhs)
            caseok.append("/\\ zc.%s \\in %s" % (v, zrhs))
            reset.append("/\\ %s' = zc.%s" % (v, v))
            init0.append("/\\ %s = CHOOSE zz \\in %s : TRUE" % (v, rhs))
        else:
            reset.append("/\\ %s' = %s" % (v, rhs))
            init0.append("/\\ %s = %s" % (v, rhs))
    rec = lambda names, f: "[" + ", ".join("%s |-> %s" % (n, f(n)) for n in names) + "]"
    out = ["---- MODULE %s ----" % view,
           "(* GENERATED by checks/C04.py from the pcal translation of %s.tla -- do not edit *)" % module,
           "EXTENDS " + ", ".join((module,) + tuple(extends)),
           "GVars == " + rec(globals_, lambda n: "ToString(%s)" % n),
           "PVars == " + rec(procv, lambda n: "ToString(%s%s)" % (n, idx)),
           "PRaw == " + rec(procv, lambda n: n + idx),
           "PCRAW == pc" + idx, "PC == PCRAW", "STK == stack" + idx,
           "LabelView(zl) == " + label_view,
           "PNext == Next" + ((" /\\ \\A zp \\in ProcSet \\ {%s} : pc'[zp] = pc[zp]" % self_id) if multi else ""),
           "TInit ==\n   " + "\n   ".join(init),
           "TInit0 ==\n   " + "\n   ".join(init0),
           "CaseOK(zc) == " + (" ".join(caseok) or "TRUE"),
           "TReset(zc) ==\n   " + "\n   ".join(reset),
           "===="]
    return "\n".join(out) + "\n"


def instantiate(work, template, name, view):
    s = open(os.path.join(work, template)).read().replace("@NAME@", name).replace("@VIEW@", view)
    with open(os.path.join(work, name + ".tla"), "w") as f:
        f.write(s)


# --------------------------------------------------------------------------- shipped pair
def extract_ps(expectpcal, root="Pross1", module="PS"):
    """The PlusCal expansion PGo generated for the instance `root` of ProcedureSpaghetti: the
    process and the (specialised) procedures it can reach, cut out of the repository's
    .expectpcal.  The complete expansion is not usable as an oracle: its specialised procedures
    share label names, pcal renames them but leaves the `goto` after a call pointing at the
    un-renamed label; Proc11/Proc12 read `b` of Proc10; and the translation of
    RecursiveProcRef0 contains an empty conjunct (see findings/C04.md).  Restricted to one
    instance the labels are unique and nothing is renamed."""
    m = re.search(r"--algorithm \w+ \{\n(.*?)\n\}\n\s*\\\* END PLUSCAL TRANSLATION", expectpcal, re.S)
    if not m:
        raise V.Inconclusive("cannot find the PlusCal expansion in ProcedureSpaghetti.tla.expectpcal")
    body = m.group(1)
    starts = [mm.start() for mm in re.finditer(r"^  (procedure|process) ", body, re.M)]
    if not starts:
        raise V.Inconclusive("no procedures/processes in the PlusCal expansion")
    header = body[:starts[0]]
    blocks = {}
    for i, st in enumerate(starts):
        blk = body[st:starts[i + 1] if i + 1 < len(starts) else len(body)]
        nm = re.match(r"  (?:procedure (\w+)|process \((\w+))", blk)
        blocks[nm.group(1) or nm.group(2)] = blk
    if root not in blocks:
        raise V.Inconclusive("process %s not found in the PlusCal expansion" % root)
    keep, todo = [], [root]
    while todo:
        b = todo.pop()
        if b in keep or b not in blocks:
            continue
        keep.append(b)
        todo += re.findall(r"\bcall (\w+)\(", blocks[b])
    text = "".join(blocks[b] for b in blocks if b in keep)  # original order: procedures before processes
    return ("---- MODULE %s ----\nEXTENDS TLC, Sequences, Integers\n(* --algorithm %s {\n%s%s\n} *)\n"
            "\\* BEGIN TRANSLATION\n\\* END TRANSLATION\n====\n" % (module, module, header, text.rstrip())), keep


# --------------------------------------------------------------------------- the check
TIERS = {
    #            MaxArg MaxNodes  abort plans per input                 random plans  chunks
    "quick":    (3,     4,        "none,mid,late,mix",                  1,            4),
    "thorough": (7,     5,        "none,early,mid,late,mix",            10,           12),
}
PS_ARGS = "0,7,13"


def prepare(chk, work, max_arg, max_nodes):
    """Scratch copy of the specs, pcal translations, generated views and configurations."""
    V.copy_specs(os.path.join(V.SPEC, ID), work)
    V.pcal(work, "Procs.tla")
    tr = open(os.path.join(work, "Procs.tla")).read()
    with open(os.path.join(work, "ProcsView.tla"), "w") as f:
        f.write(gen_view(tr, "Procs", "ProcsView"))
    src = os.path.join(V.REPO, "pgo/test/files/general/ProcedureSpaghetti.tla.expectpcal")
    if not os.path.exists(src):
        raise V.Inconclusive("missing " + src)
    pstext, kept = extract_ps(open(src).read())
    with open(os.path.join(work, "PS.tla"), "w") as f:
        f.write(pstext)
    V.pcal(work, "PS.tla")
    ptr = open(os.path.join(work, "PS.tla")).read()
    ptr = re.sub(r"\n[ \t]*/\\[ \t]*(?=\n)", "", ptr)  # pcal can emit an empty conjunct
    with open(os.path.join(work, "PS.tla"), "w") as f:
        f.write(ptr)
    with open(os.path.join(work, "PSView.tla"), "w") as f:
        f.write(gen_view(ptr, "PS", "PSView", self_id="PSSelf", globals_=["V1", "f"],
                         override={"V1": ("\\in", "PSArgs")}, extends=("PSData",)))
    instantiate(work, "ProcTrace.tla.in", "ProcsTrace", "ProcsView")
    instantiate(work, "ProcTrace.tla.in", "PSTrace", "PSView")
    # the configurations in spec/C04 carry the quick bounds; the tier sets the bounds
    for name in os.listdir(work):
        if name.endswith(".cfg"):
            text = open(os.path.join(work, name)).read()
            text = re.sub(r"MaxArg = \d+", "MaxArg = %d" % max_arg, text)
            text = re.sub(r"MaxNodes = \d+", "MaxNodes = %d" % max_nodes, text)
            with open(os.path.join(work, name), "w") as f:
                f.write(text)
    return kept


def fold(work, module, cfg, segs, chunks=1, timeout=2400):
    """TLC walks the recorded executions once (spec/C04/ProcTrace.tla.in) and writes its judgement
    to verdict.ndjson: lines it could not consume (P level) and lines where the Go frames differ
    from PlusCal's (M level).  Returns dict(accepted, rejected=[{seg, line_in_seg}],
    drift=[{seg, line_in_seg}], states, transitions, errors)."""
    import concurrent.futures, tempfile
    out = {"accepted": 0, "rejected": [], "drift": [], "states": 0, "transitions": 0, "errors": []}
    if not segs:
        return out
    chunks = max(1, min(chunks, len(segs)))
    parts = [segs[i::chunks] for i in range(chunks)]

    def one(part):
        d = tempfile.mkdtemp(prefix="fold.", dir=os.path.dirname(work))
        try:
            V.copy_specs(work, d)
            starts, n = [], 0
            with open(os.path.join(d, "trace.ndjson"), "w") as f:
                for sg in part:
                    starts.append(n + 1)
                    for ln in sg:
                        f.write(json.dumps(ln) + "\n")
                        n += 1
            res = V.tlc(d, module, cfg=cfg, workers=1, timeout=timeout, deadlock=False, jvm=["-XX:ParallelGCThreads=2"])
            vp = os.path.join(d, "verdict.ndjson")
            verdict = V.read_jsonl(vp)[0] if os.path.exists(vp) else None
        finally:
            shutil.rmtree(d, ignore_errors=True)
        return part, starts, n, res, verdict

    def locate(starts, lineno):
        i = max(k for k, st in enumerate(starts) if st <= lineno)
        return i, lineno - starts[i] + 1

    with concurrent.futures.ThreadPoolExecutor(max_workers=chunks) as ex:
        for part, starts, n, res, verdict in ex.map(one, parts):
            out["states"] += res.distinct
            out["transitions"] += res.generated
            if res.timed_out or res.error or res.violation or verdict is None or verdict.get("lines") != n or res.depth != n + 2:
                out["errors"].append("TLC did not finish the walk over %d recorded lines (%s)" % (
                    n, "timeout" if res.timed_out else (res.error or res.violation or "depth %d, no complete verdict" % res.depth)))
                continue
            badsegs = set()
            for ln in verdict["bad"]:
                i, k = locate(starts, ln)
                badsegs.add(i)
                out["rejected"].append({"seg": part[i], "line_in_seg": k})
            for ln in verdict["drift"]:
                i, k = locate(starts, ln)
                out["drift"].append({"seg": part[i], "line_in_seg": k})
            out["accepted"] += len(part) - len(badsegs)
    return out


def brief(ln):
    """A recorded line without the bulk (for messages, samples and replay files)."""
    if ln.get("e") in ("init", "step"):
        d = {"e": ln["e"], "pc": ln.get("pc"), "g": ln.get("g"), "v": ln.get("v"),
             "stack": [fr.get("pc") for fr in ln.get("stack", [])]}
        if ln["e"] == "step":
            d["abort"] = ln.get("abort")
            d["inj"] = ln.get("inj")
        return d
    return ln


def classify(seg, line_in_seg):
    """Stable key + description of a trace TLC could not consume at line_in_seg (1-based)."""
    case = seg[0]
    k = max(1, min(line_in_seg, len(seg)))
    ln = seg[k - 1]
    prev = seg[k - 2] if k >= 2 else {}
    at = str(prev.get("pc", "?")).strip('"')
    base = "C04:%s:%s" % (case.get("suite"), case.get("prog"))
    if ln.get("e") == "case":
        return None, "the case line is not in the family of the specification"
    if ln.get("e") == "end":
        if ln.get("status") == "hang":
            return None, "driver watchdog expired"
        if ln.get("status") == "done":
            return base + ":stops-early:at=%s" % at, \
                "Run returned although the PlusCal program is not at Done (last state pc=%s)" % at
        return base + ":%s:at=%s" % (ln.get("status"), at), \
            "Run died (%s) in section %s: %s" % (ln.get("status"), at, str(ln.get("msg"))[:300])
    if ln.get("e") == "step" and ln.get("abort"):
        return base + ":abort-not-rolled-back:inj=%s:at=%s" % (ln.get("inj"), at), \
            "an aborted attempt (%s abort) of section %s changed the visible state: before %s, after %s" % (
                {"e": "early", "m": "mid-call, or late if the section makes no call:", "l": "late"}.get(ln.get("inj"), "?"), at,
                json.dumps(brief(prev)), json.dumps(brief(ln)))
    return base + ":wrong-step:at=%s" % at, \
        "the committed attempt of section %s produced a state that is not the PlusCal successor: before %s, after %s" % (
            at, json.dumps(brief(prev)), json.dumps(brief(ln)))


def run(chk):
    max_arg, max_nodes, modes, nrand, chunks = TIERS["quick" if chk.quick() else "thorough"]
    work = os.path.join(chk.tmp, "spec")
    kept = prepare(chk, work, max_arg, max_nodes)
    chk.notes["ps_expansion_blocks"] = kept

    # 1. design level: exhaustive TLC over the family (exports the family for the driver), in
    #    parallel with the build of the driver against the current tree
    import concurrent.futures, time
    t0 = time.time()
    with concurrent.futures.ThreadPoolExecutor(max_workers=3) as ex:
        j1 = ex.submit(V.tlc, work, "MCProcs", cfg="MCProcs.cfg", workers=4, timeout=1500, deadlock=False, extra=["-coverage", "1"])
        j2 = ex.submit(V.tlc, work, "MCPS", cfg="MCPS.cfg", workers=1, timeout=600, deadlock=False)
        j3 = ex.submit(V.build_driver, "c04drv", chk.bindir)
        res, res2 = j1.result(), j2.result()
        chk.add_tlc("MCProcs exhaustive: every program x argument (Results, NoStaleParam, StackWellFormed, [][FrameStep]_vars)", res)
        chk.add_tlc("MCPS exhaustive: Pross1 of the shipped ProcedureSpaghetti expansion (KnownLabels, KnownVars, Result, [][FrameStep]_vars)", res2)
        drv = j3.result()
    chk.exhaustive = res.ok
    # vacuity: no expression inside an action of the translation (labels f1 .. m1) was never evaluated
    tl = open(os.path.join(work, "Procs.tla")).read().splitlines()
    first = next((i + 1 for i, x in enumerate(tl) if re.match(r"\w+ == /\\ pc = ", x)), 0)
    last = next((i + 1 for i, x in enumerate(tl) if x.startswith("(* Allow infinite stuttering")), len(tl))
    cz = []
    for z in res.coverage_zero():
        mz = re.search(r"line (\d+), col \d+ to line \d+, col \d+ of module Procs:", z)
        if mz and first <= int(mz.group(1)) < last:
            cz.append(z.lstrip("| ") + "   " + tl[int(mz.group(1)) - 1].strip())
    chk.notes["mcprocs_action_expressions_never_evaluated"] = cz[:12]
    ps_ok = res2.ok
    fam = os.path.join(work, "family.ndjson")
    if not res.ok or not os.path.exists(fam):
        raise V.Inconclusive("design-level run of MCProcs failed or did not export the family: %s" % (res.error or res.violation or "no family.ndjson"))
    phases = {"design_level_and_build": round(time.time() - t0, 1)}

    # 2. the real code: hand-built twins + shipped archetype under MPCalContext.Run
    t0 = time.time()
    tracef = os.path.join(chk.tmp, "trace.ndjson")
    if chk.replay:
        rp = json.load(open(chk.replay))["case"]
        cmd = [drv, "-family", fam, "-out", tracef, "-seed", str(rp.get("seed", chk.seed)), "-only", rp["only"]]
    else:
        cmd = [drv, "-family", fam, "-out", tracef, "-seed", str(chk.seed), "-modes", modes, "-rand", str(nrand),
               "-psargs", PS_ARGS if ps_ok else ""]
    rc, o = V.run(cmd, timeout=2400)
    if rc != 0:
        raise V.Inconclusive("c04drv failed rc=%s: %s" % (rc, o[-2000:]))
    lines = V.read_jsonl(tracef)
    segs = V.split_cases(lines)
    if not segs:
        raise V.Inconclusive("the driver recorded no execution")
    phases["driver"] = round(time.time() - t0, 1)
    t0 = time.time()
    suites = {"procs": [s for s in segs if s[0].get("suite") == "procs"],
              "ps": [s for s in segs if s[0].get("suite") == "ps"]}
    spec_of = {"procs": ("ProcsTrace", "ProcsTrace.cfg"), "ps": ("PSTrace", "PSTrace.cfg")}

    # 3. TLC judges the recording: one walk per chunk; lines it cannot consume are violations
    #    (P level), frame-representation mismatches are drift (M level).
    accepted, m_clean = 0, 0
    seen_keys = set()

    def report_stuck(r):
        seg = r["seg"]
        key, what = classify(seg, r["line_in_seg"])
        if key is None:
            chk.inconclusive.append("case %s: %s" % (seg[0].get("id"), what))
            return
        if key in seen_keys:
            return
        seen_keys.add(key)
        case = seg[0]
        k = r["line_in_seg"]
        chk.violation(key, "case %s (input %s, abort plan %s): %s" % (case.get("id"), case.get("arg"), case.get("mode"), what),
                      {"only": "%s:%s:%s:%s:%s" % (case.get("suite"), case.get("prog"), case.get("arg"), case.get("mode"), case.get("rep")),
                       "seed": case.get("seed"), "line_in_seg": k,
                       "around": [brief(x) for x in seg[max(0, k - 3):k]]})

    canary = make_canary(suites["procs"])
    jobs = {}
    with concurrent.futures.ThreadPoolExecutor(max_workers=2) as ex:
        for suite, ss in suites.items():
            if ss:
                mod, cfg = spec_of[suite]
                extra = [canary] if (suite == "procs" and canary) else []
                jobs[suite] = ex.submit(fold, work, mod, cfg, ss + extra, chunks if suite == "procs" else 1, 2400)
    results = {k: j.result() for k, j in jobs.items()}

    for suite in ("procs", "ps"):
        if suite not in results:
            continue
        r = results[suite]
        chk.states += r["states"]; chk.transitions += r["transitions"]
        for e in r["errors"]:
            chk.inconclusive.append("trace fold %s: %s" % (suite, e))
        rejected = [x for x in r["rejected"] if not x["seg"][0].get("canary")]
        if suite == "procs" and canary and not r["errors"]:
            hit = len(rejected) != len(r["rejected"])
            chk.notes["canary_rejected"] = hit
            r["accepted"] -= 0 if hit else 1
            if not hit:
                chk.inconclusive.append("vacuity canary: a recording with a corrupted restored value was accepted by the trace specification")
        accepted += r["accepted"]
        for x in rejected:
            report_stuck(x)
        dcases = {}
        for x in r["drift"]:
            dcases.setdefault(x["seg"][0].get("id"), x)
        m_clean += r["accepted"] - len([c for c in dcases if c not in {y["seg"][0].get("id") for y in rejected}])
        for cid, x in list(dcases.items())[:10]:
            chk.drift.append({"spec": "frame representation (ProcTrace!StackMatches)", "case": cid, "event": x["line_in_seg"],
                              "go_frames": x["seg"][x["line_in_seg"] - 1].get("stack"),
                              "state": brief(x["seg"][x["line_in_seg"] - 1])})
        if len(dcases) > 10:
            chk.drift.append({"spec": "frame representation (ProcTrace!StackMatches)", "more_cases": len(dcases) - 10})
    chk.traces = accepted
    phases["trace_validation"] = round(time.time() - t0, 1)
    chk.notes["phase_wall_s"] = phases

    # 4. evidence
    done = [s for s in segs if s[-1].get("e") == "end" and s[-1].get("status") == "done"]
    inj = {}
    for ln in lines:
        if ln.get("e") == "step" and ln.get("abort"):
            inj[ln.get("inj")] = inj.get(ln.get("inj"), 0) + 1
    per_prog = {}
    for s in segs:
        per_prog[s[0].get("prog")] = per_prog.get(s[0].get("prog"), 0) + 1
    chk.notes.update({
        "cases_recorded": len(segs), "cases_run_to_Done": len(done), "events_recorded": len(lines),
        "cases_per_program": per_prog, "aborted_attempts_by_position": inj,
        "max_stack_depth": max([len(ln.get("stack", [])) for ln in lines] or [0]),
        "m_level_cases_without_drift": m_clean,
        "family": {"MaxArg": max_arg, "MaxNodes": max_nodes, "abort_plans": modes, "random_plans": nrand, "ps_args": PS_ARGS},
    })
    want = ["fact:2:late:0", "ref:1:mix:0", "lendt:2:mid:0", "tree:%d:none:0" % max([x[0].get("arg", 0) for x in suites["procs"] if x[0].get("prog") == "tree"] or [0]),
            "ps:13:mid:0"]
    for sg in segs:
        if sg[0].get("id") in want:
            chk.sample({"case": sg[0], "first_states": [brief(x) for x in sg[1:11]], "events": len(sg) - 2, "end": sg[-1]})
    if not chk.samples:
        for sg in segs[:2]:
            chk.sample({"case": sg[0], "first_states": [brief(x) for x in sg[1:11]], "events": len(sg) - 2, "end": sg[-1]})
    if not ps_ok:
        chk.gaps.append("shipped ProcedureSpaghetti pair not bound in this run (MCPS not clean)")
    chk.gaps += ["code generator (MPCalGoCodegenPass.scala) itself is not run: the Go twins are hand-built in its shapes, plus the one shipped generated file",
                 "cross-procedure tail call from a procedure with an outer live activation is outside the family (pcal's translation does not restore the caller's parameters there)"]
    chk.assumptions += ["TLC/SANY/pcal/Json module", "the hand-built Go twins in harness/cmd/c04drv/progs.go transcribe Procs.tla faithfully",
                        "values are compared by their TLA+ print form (tla.Value.String vs TLC ToString)",
                        "a procedure variable that was never created, or holds the zero Value, is PlusCal's defaultInitValue",
                        "variables of procedures without a live activation are not observable and not compared"]
    return chk.finish(rule="every program x argument x call tree of ProcsData.tla (exported by TLC) is executed by the real MPCalContext.Run "
                           "under abort plans %s + %d random plan(s); the state after EVERY attempt is recorded and TLC consumes the recording "
                           "step by step against the pcal translation (commit = the PlusCal successor, abort = unchanged state, end = Done)" % (modes, nrand))


def make_canary(procs_segs):
    """Copy of an accepted-looking fact execution in which the value of `n` seen after a return
    is changed; the trace specification must reject it."""
    import copy
    for s in procs_segs:
        if s[0].get("prog") == "fact" and s[0].get("arg", 0) >= 2 and s[0].get("mode") == "none":
            c = copy.deepcopy(s)
            c[0]["canary"] = True
            c[0]["id"] = "canary"
            for ln in c:
                if ln.get("e") == "step" and ln.get("pc") == '"f3"' and "n" in ln.get("v", {}):
                    ln["v"]["n"] = str(int(ln["v"]["n"]) + 1)
                    return c
    return None
