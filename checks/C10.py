"""C10 -- nondeterministic choices are in range and no enabled alternative is starved.

spec/C10/Fairness.tla      M-spec: transcription of distsys/fairness.go
spec/C10/FairnessProps.tla P-level properties over a history of attempts
spec/C10/FairnessCases.tla program / case family (exported to the Go driver by TLC)
spec/C10/FairnessObs.tla   P-level trace spec (verdicts)
spec/C10/FairnessTrace.tla M-level trace spec (conformance; a rejection is model drift)
harness/cmd/c10drv         replays the family on the real oracle (direct, under Run, generated code)
"""
import json, os, shutil
import vcommon as V


def run(chk):
    specsrc = os.path.join(V.SPEC, "C10")
    work = os.path.join(chk.tmp, "spec")
    V.copy_specs(specsrc, work)
    quick = chk.quick()

    # 1. design level: exhaustive TLC over the family, all random initial digits
    res = V.tlc(work, "MCFairness", cfg="MCFairness.cfg", workers=8, timeout=900, deadlock=False)
    chk.add_tlc("MCFairness exhaustive (InRange, NoPanic, ExactCover, LeafReach)", res)
    chk.exhaustive = res.ok
    # vacuity / documentation: without the id-consistency hypothesis bounded starvation fails on the model
    res2 = V.tlc(work, "MCFairness", cfg="MCFairnessStarve.cfg", workers=4, timeout=600, deadlock=False)
    chk.tlc_jobs.append(res2.summary("MCFairnessStarve (expected: LeafReachAny violated on the model; design observation, see DESIGN.md section 8 #14)"))
    chk.notes["model_starvation_counterexample_found"] = bool(res2.violation)
    if not (os.path.exists(os.path.join(work, "progs.ndjson")) and os.path.exists(os.path.join(work, "cases.ndjson"))):
        raise V.Inconclusive("TLC did not export the case family")

    # 2. replay the family on the real code
    drv = V.build_driver("c10drv", chk.bindir)
    reps = {"direct": 4 if quick else 120, "ctx": 2 if quick else 40, "nondet": 6 if quick else 150}
    if chk.replay:
        rp = json.load(open(chk.replay))
        lines = rp["case"]["segment"]
        segs = V.split_cases(lines)
    else:
        lines = []
        for mode, n in reps.items():
            out = os.path.join(chk.tmp, "trace-%s.ndjson" % mode)
            rc, o = V.run([drv, "-mode", mode, "-reps", str(n), "-progs", os.path.join(work, "progs.ndjson"),
                           "-cases", os.path.join(work, "cases.ndjson"), "-out", out], timeout=900)
            if rc != 0:
                raise V.Inconclusive("c10drv -mode %s failed rc=%s: %s" % (mode, rc, o[-2000:]))
            lines += V.read_jsonl(out)
        segs = V.split_cases(lines)

    # real-code panics / hangs of the oracle are violations in their own right
    clean = []
    for s in segs:
        bad = [ln for ln in s if ln.get("e") in ("panic", "hang")]
        if bad:
            chk.violation("C10:oracle-%s:mode=%s" % (bad[0]["e"], s[0].get("mode")),
                          "the choice oracle %s during %s: %s" % ("panicked" if bad[0]["e"] == "panic" else "hung",
                                                                 bad[0].get("what"), bad[0].get("msg", "")),
                          {"segment": s})
        else:
            clean.append(s)
    chunks = 4 if quick else 14
    # 3. P-level verdicts
    obs = V.fold_traces(work, "FairnessObs", "FairnessObs.cfg", clean, timeout=1500, chunks=chunks)
    chk.states += obs["states"]; chk.transitions += obs["transitions"]; chk.traces += obs["accepted"]
    for e in obs["errors"]:
        chk.inconclusive.append("FairnessObs: " + e)
    for r in obs["rejected"]:
        seg = r["seg"]
        inv = "rejected"
        for name in ("InRange", "ExactCover", "LeafReach"):
            if name in r["text"]:
                inv = name
        progs = sorted({ln["p"] for ln in seg if ln.get("e") == "begin"})
        chk.violation("C10:%s:mode=%s:progs=%s" % (inv, seg[0].get("mode"), progs),
                      "real oracle history violates %s (%s) in case %s, event %d of the segment" % (
                          inv, r["text"], seg[0].get("case"), r["line_in_seg"]),
                      {"segment": seg, "line_in_seg": r["line_in_seg"], "tlc": r["text"]})
    # 4. M-level conformance (drift only)
    mt = V.fold_traces(work, "FairnessTrace", "FairnessTrace.cfg", clean, timeout=1500, chunks=chunks)
    chk.states += mt["states"]; chk.transitions += mt["transitions"]
    chk.notes["m_level_traces_accepted"] = mt["accepted"]
    for r in mt["rejected"]:
        chk.drift.append({"spec": "Fairness.tla", "case": r["seg"][0].get("case"), "mode": r["seg"][0].get("mode"),
                          "event": r["line_in_seg"], "text": r["text"]})
    for e in mt["errors"]:
        chk.drift.append({"spec": "Fairness.tla", "error": e})
    for s in clean[:2] + clean[-2:]:
        chk.sample({"mode": s[0].get("mode"), "case": s[0].get("case"), "events": s[1:14]})
    chk.assumptions += ["TLC/SANY/Json module", "programs of the family are walked to a leaf by the driver",
                        "ExactCover/LeafReach are evaluated inside the maximal same-program prefix of a label run (DESIGN C10)"]
    chk.notes["events_recorded"] = len(lines)
    chk.notes["cases_recorded"] = len(segs)
    return chk.finish(rule="every program/case of FairnessCases.tla (exported by TLC) replayed on the real oracle "
                           "%s times (direct/ctx/nondet), every recorded call folded by TLC into FairnessObs.tla "
                           "(InRange, ExactCover, LeafReach) and FairnessTrace.tla (conformance to the transcription)" % reps)
