"""C12 -- CRDT data types are semilattices with their declared read semantics.

spec/C12/CRDTSem.tla        declared semantics: a value = the set of update events it knows; declared reads
spec/C12/CRDTTypes.tla      P-spec machine (updates, pairwise merges, snapshots, stale/duplicated deliveries);
                            also the GENERATOR: every transition of the complete graph is logged (LogEdge)
spec/C12/CRDTSim.tla        generator, simulation mode (long random histories)
spec/C12/CRDTImpl.tla       M-spec: transcription of gcounter.go / aworset.go / lww.go (repaired and pinned)
spec/C12/MCCRDT.tla         design level: M in lock step with P; ReadAgree, StateFn, semilattice laws, inflation
spec/C12/CRDTObs.tla        P-level trace spec (verdicts: ReadOK, StateFn) over values recorded from the real code
spec/C12/CRDTImplTrace.tla  M-level trace spec (conformance of dumps/reads to the transcription; drift only)
spec/C12/CRDTObsRead.cfg    ReadOK alone (second fold of cases that broke a law, to see whether reads diverge too)
spec/C12/MCPinned*.cfg      transcriptions of the pinned tree: must be rejected (vacuity); counterexamples -> directed cases
harness/cmd/c12drv          replays the histories on the real CRDTValues + gob, records every value

Environment: VERIF_SEED seeds the walk sampling, TLC -seed, the value universes and the sampled probes;
VERIF_C12_CASES=<cases.ndjson> (development aid) replays a saved cases file instead of running the generators.
"""
import concurrent.futures
import json
import os
import random
import re
import time

import vcommon as V

ID = "C12"

# constants of the TLC jobs per tier: (NRep, NElem, MaxUpd, MaxSnap)
MC_BOUNDS = {
    "quick": {"gcounter": (2, 1, 3, 1), "aworset": (2, 1, 4, 1), "lww": (2, 1, 3, 1)},
    "thorough": {"gcounter": (3, 1, 4, 1), "aworset": (3, 1, 4, 0), "lww": (2, 2, 4, 1)},
}
MC_EXTRA_THOROUGH = {"aworset": (2, 2, 4, 1), "lww": (3, 1, 3, 1)}
# generator graphs: every covering walk of the first is replayed in the thorough tier (a seeded sample in the
# quick tier); the thorough tier adds a seeded sample of the covering walks of the deeper second graph
GEN_BOUNDS = {"set": (2, 1, 3, 1), "gcounter": (2, 1, 3, 1)}
GEN2_BOUNDS = {"set": (2, 1, 4, 1), "gcounter": (2, 1, 4, 1)}
GEN2_SAMPLE = 1000


def set_consts(path, nrep, nelem, maxupd, maxsnap, amts=None):
    s = open(path).read()
    s = re.sub(r"NRep = \d+", "NRep = %d" % nrep, s)
    s = re.sub(r"NElem = \d+", "NElem = %d" % nelem, s)
    s = re.sub(r"MaxUpd = \d+", "MaxUpd = %d" % maxupd, s)
    s = re.sub(r"MaxSnap = \d+", "MaxSnap = %d" % maxsnap, s)
    if amts:
        s = re.sub(r"Amts = \{[^}]*\}", "Amts = {%s}" % amts, s)
    open(path, "w").write(s)


def subdir(work, name):
    d = os.path.join(os.path.dirname(work), name)
    V.copy_specs(work, d)
    return d


# --------------------------------------------------------------------------- generators


def load_edges(path, expected):
    """edges.ndjson (one JSON string per line, written by CRDTTypes!LogEdge) -> init, adjacency.
    Lines are sorted first, so the result does not depend on the order in which TLC's workers wrote them."""
    edges = []
    with open(path) as f:
        for n, line in enumerate(f):
            line = line.strip()
            if not line:
                continue
            try:
                d = json.loads(json.loads(line))
                edges.append((d["src"], json.dumps(d["act"], sort_keys=True), d["dst"]))
            except (ValueError, KeyError):
                raise V.Inconclusive("edge log %s is damaged (line %d)" % (path, n + 1))
    if len(edges) != expected:
        raise V.Inconclusive("edge log %s has %d transitions, TLC generated %d" % (path, len(edges), expected))
    edges.sort()
    names = sorted({e[0] for e in edges} | {e[2] for e in edges})
    ids = {k: i for i, k in enumerate(names)}
    out = [[] for _ in names]
    for s, a, t in edges:
        out[ids[s]].append((json.loads(a), ids[t]))
    # the initial state is the only one without events (SId starts with the empty event sequence)
    inits = [v for k, v in ids.items() if k.startswith("<<<<>>,")]
    if len(inits) != 1:
        raise V.Inconclusive("edge log %s: cannot identify the initial state" % path)
    return inits[0], out


def covering_walks(init, out, maxlen, rng):
    """walks from the initial state that together take every logged transition at least once"""
    # shortest path tree
    parent = {init: None}
    order = [init]
    for s in order:
        for i, (_, t) in enumerate(out[s]):
            if t not in parent:
                parent[t] = (s, i)
                order.append(t)
    covered = [set() for _ in out]
    total = sum(len(o) for o in out)
    walks = []

    def path_to(s):
        p = []
        while parent[s] is not None:
            ps, i = parent[s]
            p.append((ps, i))
            s = ps
        p.reverse()
        return p

    def nearest_uncovered(src, limit):
        """shortest path (list of (state, edge index)) from src to a state that still has an untaken transition"""
        if limit <= 0:
            return None
        prev = {src: None}
        frontier = [src]
        depth = 0
        while frontier and depth < limit:
            depth += 1
            nxt = []
            for a in frontier:
                for j, (_, t) in enumerate(out[a]):
                    if t in prev:
                        continue
                    prev[t] = (a, j)
                    if len(covered[t]) < len(out[t]):
                        p = []
                        while prev[t] is not None:
                            p.append(prev[t])
                            t = prev[t][0]
                        p.reverse()
                        return p
                    nxt.append(t)
            frontier = nxt
        return None

    for s in order:
        for i in range(len(out[s])):
            if i in covered[s]:
                continue
            w = path_to(s) + [(s, i)]
            covered[s].add(i)
            cur = out[s][i][1]
            while len(w) < maxlen:
                cand = [j for j in range(len(out[cur])) if j not in covered[cur]]
                if cand:
                    j = rng.choice(cand)
                    w.append((cur, j))
                    covered[cur].add(j)
                    cur = out[cur][j][1]
                    continue
                p = nearest_uncovered(cur, min(4, maxlen - len(w) - 1))
                if not p:
                    break
                w += p
                cur = out[p[-1][0]][p[-1][1]][1]
            walks.append([out[a][b][0] for (a, b) in w])
    return walks, total, len(order)


def load_sim(path):
    seen, res = set(), []
    if not os.path.exists(path):
        return res
    with open(path) as f:
        for line in f:
            line = line.strip()
            if line and line not in seen:
                seen.add(line)
                res.append(json.loads(json.loads(line)))
    return res


ACT_RE = re.compile(r"/\\ act = \[([^\]]*)\]")


def parse_tlc_acts(outtext):
    """the act labels of a counterexample printed by TLC -> list of steps"""
    steps = []
    for m in ACT_RE.finditer(outtext):
        d = {}
        for kv in m.group(1).split(","):
            k, v = [x.strip() for x in kv.split("|->")]
            d[k] = v.strip('"') if v.startswith('"') else int(v)
        if d.get("a") != "init":
            steps.append(d)
    return steps


# --------------------------------------------------------------------------- the check


def run(chk):
    specsrc = os.path.join(V.SPEC, ID)
    work = os.path.join(chk.tmp, "spec")
    V.copy_specs(specsrc, work)
    quick = chk.quick()
    tier = "quick" if quick else "thorough"
    rng = random.Random(chk.seed)
    t0 = time.time()
    drv = V.build_driver("c12drv", chk.bindir)
    chk.notes["phase_s"] = {"build": round(time.time() - t0, 1)}

    if chk.replay:
        rp = json.load(open(chk.replay))
        cases = [rp["case"]["input"]]
        return judge(chk, work, drv, cases, {}, quick)
    if os.environ.get("VERIF_C12_CASES"):
        # development aid (mutation experiments): replay a cases file saved from an earlier run instead of
        # running the generators again; the design-level jobs are skipped and the evidence says so
        cases = V.read_jsonl(os.environ["VERIF_C12_CASES"])
        chk.notes["cases_from_file"] = os.environ["VERIF_C12_CASES"]
        return judge(chk, work, drv, cases, {}, quick)

    # ---- 1. TLC jobs (design level + generators), run side by side
    jobs = {}

    def mc_job(name, impl, cfg, bounds, timeout):
        d = subdir(work, "mc-" + name)
        set_consts(os.path.join(d, cfg), *bounds, amts="1, 2" if impl == "gcounter" else None)
        # the pinned transcriptions are rejected after a few hundred states: one worker = the same counterexample every time
        nw = 1 if "pinned" in impl else (6 if quick else 8)
        return V.tlc(d, "MCCRDT", cfg=cfg, workers=nw, timeout=timeout, deadlock=False)

    def gen_job(kind, cfg, bounds, timeout, tag="gen-"):
        d = subdir(work, tag + kind)
        set_consts(os.path.join(d, cfg), *bounds)
        # several workers append to the same file: one short line per write, checked for integrity in load_edges
        res = V.tlc(d, "CRDTTypes", cfg=cfg, workers=4, timeout=timeout, deadlock=False)
        return res, os.path.join(d, "edges.ndjson")

    def sim_job(kind, cfg, num, simlen, timeout):
        d = subdir(work, "sim-" + kind)
        p = os.path.join(d, cfg)
        s = re.sub(r"SimLen = \d+", "SimLen = %d" % simlen, open(p).read())
        open(p, "w").write(s)
        res = V.tlc(d, "CRDTSim", cfg=cfg, workers=1, timeout=timeout, deadlock=False,
                    simulate="num=%d" % num, depth=simlen + 2, seed=chk.seed)
        return res, os.path.join(d, "sim.ndjson")

    nsim = 30 if quick else 200
    simlen = 16 if quick else 24
    tmo = 1500 if quick else 3000
    t0 = time.time()
    ex = concurrent.futures.ThreadPoolExecutor(max_workers=6 if quick else 5)
    # generators first (the replay waits for them); the design-level jobs keep running during replay and folding
    jobs["gen-set"] = ex.submit(gen_job, "set", "GenSet.cfg", GEN_BOUNDS["set"], tmo)
    jobs["gen-gcounter"] = ex.submit(gen_job, "gcounter", "GenCounter.cfg", GEN_BOUNDS["gcounter"], tmo)
    if not quick:
        jobs["gen2-set"] = ex.submit(gen_job, "set", "GenSet.cfg", GEN2_BOUNDS["set"], tmo, "gen2-")
        jobs["gen2-gcounter"] = ex.submit(gen_job, "gcounter", "GenCounter.cfg", GEN2_BOUNDS["gcounter"], tmo, "gen2-")
    jobs["pin-aworset"] = ex.submit(mc_job, "pin-aworset", "aworset-pinned", "MCPinnedAW.cfg", (2, 1, 4, 1), tmo)
    jobs["pin-lww"] = ex.submit(mc_job, "pin-lww", "lww-pinned", "MCPinnedLWW.cfg", (2, 1, 4, 1), tmo)
    jobs["sim-set"] = ex.submit(sim_job, "set", "SimSet.cfg", nsim, simlen, tmo)
    jobs["sim-gcounter"] = ex.submit(sim_job, "gcounter", "SimCounter.cfg", nsim, simlen, tmo)
    for impl in ("aworset", "lww", "gcounter"):
        jobs["mc-" + impl] = ex.submit(mc_job, impl, impl, "MC%s.cfg" % impl, MC_BOUNDS[tier][impl], tmo)
    if not quick:
        for impl, b in MC_EXTRA_THOROUGH.items():
            jobs["mc2-" + impl] = ex.submit(mc_job, impl + "-2", impl, "MC%s.cfg" % impl, b, tmo)

    def collect_design():
        design_ok = True
        for name in sorted(jobs):
            if name.startswith("mc"):
                res = jobs[name].result()
                chk.add_tlc("%s: M implies P, exhaustive (ReadAgree StateFn Commutative Idempotent Associative "
                            "MergeReads Inflation Monotone)" % name, res)
                design_ok = design_ok and res.ok
        chk.exhaustive = design_ok
        ex.shutdown()

    # the transcriptions of the PINNED tree must be rejected by the same invariants (vacuity check of
    # the design level); their counterexamples become directed cases for the real code
    directed = []
    for name, kinds in (("pin-aworset", ("aworset", "lww")), ("pin-lww", ("lww", "aworset"))):
        res = jobs[name].result()
        chk.tlc_jobs.append(res.summary(name + " (transcription of the pinned tree; a counterexample is EXPECTED and is "
                                               "replayed on the real code as a directed case)"))
        chk.notes[name + "_model_counterexample"] = res.violation
        if res.timed_out or res.error:
            chk.inconclusive.append("TLC job %s: %s" % (name, res.error or "timeout"))
        elif not res.violation:
            chk.inconclusive.append("TLC job %s: the pinned design was NOT rejected (the design-level invariants are vacuous?)" % name)
        else:
            steps = parse_tlc_acts(res.out)
            # complete the counterexample so that every replica ends up knowing everything, both ways round
            tail = [{"a": "merge", "r": 1, "q": 2}, {"a": "merge", "r": 2, "q": 1}, {"a": "deliver", "r": 1, "q": 1},
                    {"a": "deliver", "r": 2, "q": 1}, {"a": "merge", "r": 2, "q": 1}, {"a": "merge", "r": 1, "q": 2}]
            for k in kinds:
                directed.append({"kind": k, "nrep": 2, "nelem": 1, "nslot": 1, "steps": steps + tail, "src": "cex-" + name})
    # the history found while designing (findings/C12.md): stale own state re-delivered after add-wins
    hist = [("upd", 1, 0, "add"), ("snap", 1, 1, ""), ("upd", 1, 0, "rem"), ("upd", 2, 0, "add"), ("merge", 1, 2, ""),
            ("deliver", 1, 1, ""), ("upd", 2, 0, "rem"), ("merge", 1, 2, ""), ("merge", 2, 1, "")]
    for k in ("aworset", "lww"):
        directed.append({"kind": k, "nrep": 2, "nelem": 1, "nslot": 1, "src": "directed-stale-readd",
                         "steps": [{"a": a, "r": r, "q": q, "op": op, "e": 1 if op else 0, "amt": 0} for a, r, q, op in hist]})

    # ---- 2. cases from the generators
    cases = []
    gen_notes = {}
    maxlen = 14 if quick else 22
    cap = 60 if quick else None  # quick: seeded sample of the covering walks; thorough: all of them
    for kind, targets in (("set", ("aworset", "lww")), ("gcounter", ("gcounter",))):
        for tag, bounds, sample in (("gen-", GEN_BOUNDS, cap), ("gen2-", GEN2_BOUNDS, GEN2_SAMPLE)):
            if tag + kind not in jobs:
                continue
            res, epath = jobs[tag + kind].result()
            chk.add_tlc("%s%s: complete history graph of CRDTTypes (AuthorPrefix, PrefixObserved), transitions exported" % (tag, kind), res)
            if not res.ok or not os.path.exists(epath):
                raise V.Inconclusive("generator %s%s failed: %s" % (tag, kind, res.error or res.violation or "no edges"))
            init, out = load_edges(epath, res.generated - 1)
            walks, total, nstates = covering_walks(init, out, maxlen, rng)
            b = bounds[kind]
            gen_notes[tag + kind] = {"states": nstates, "transitions": total, "covering_walks": len(walks),
                                     "bounds(NRep,NElem,MaxUpd,MaxSnap)": b}
            if sample and len(walks) > sample:
                walks = rng.sample(walks, sample)
            gen_notes[tag + kind]["walks_replayed"] = len(walks)
            for n, w in enumerate(walks):
                for t in targets:
                    cases.append({"kind": t, "nrep": b[0], "nelem": b[1] if kind == "set" else 0, "nslot": b[3], "steps": w,
                                  "src": "walk" if tag == "gen-" else "walk2", "noprobe": (not quick) and n % 10 != 0})
        res, spath = jobs["sim-" + kind].result()
        chk.tlc_jobs.append(res.summary("sim-%s: random histories of CRDTTypes beyond the exhaustive bounds" % kind))
        chk.transitions += res.generated
        if res.timed_out or res.error:
            raise V.Inconclusive("generator sim-%s failed: %s" % (kind, res.error or "timeout"))
        sims = load_sim(spath)
        gen_notes["sim-" + kind] = {"histories": len(sims), "length": simlen}
        for h in sims:
            for t in targets:
                cases.append({"kind": t, "nrep": 3, "nelem": 2 if kind == "set" else 0, "nslot": 2, "steps": h, "src": "sim"})
    cases = directed + cases
    chk.notes["phase_s"]["tlc_design_and_generators"] = round(time.time() - t0, 1)
    for i, c in enumerate(cases):
        c["case"] = "%s-%s-%d" % (c.pop("src"), c["kind"], i)
        c["uni"] = (chk.seed + i) % 6
        c["probes"] = 0 if c.pop("noprobe", False) else (3 if quick else 5)
        c["trip"] = 2 if quick else 6
    return judge(chk, work, drv, cases, gen_notes, quick, collect_design)


def judge(chk, work, drv, cases, gen_notes, quick, collect_design=None):
    cpath = os.path.join(chk.tmp, "cases.ndjson")
    with open(cpath, "w") as f:
        for c in cases:
            f.write(json.dumps(c) + "\n")
    tpath = os.path.join(chk.tmp, "trace.ndjson")
    t0 = time.time()
    rc, o = V.run([drv, "-cases", cpath, "-out", tpath, "-seed", str(chk.seed), "-par", "8"], timeout=3000)
    if rc == 3:
        chk.inconclusive.append("c12drv: a case did not finish within the watchdog (hang is not a verdict)")
        rc = 0
    if rc != 0:
        raise V.Inconclusive("c12drv failed rc=%s: %s" % (rc, o[-2000:]))
    chk.notes["phase_s"]["driver"] = round(time.time() - t0, 1)
    t0 = time.time()
    lines = V.read_jsonl(tpath)
    segs = V.split_cases(lines)
    if len(segs) != len(cases):
        raise V.Inconclusive("driver recorded %d cases, expected %d" % (len(segs), len(cases)))

    def replay_obj(seg, extra=None):
        r = {"input": seg[0]["input"], "ids": seg[0]["ids"], "elems": seg[0]["elems"],
             "values": [{k: ln.get(k) for k in ("v", "f", "a", "b", "r", "op", "el", "amt", "law", "rk", "rn", "rs", "d")}
                        for ln in seg[1:] if ln.get("e") == "val"]}
        r.update(extra or {})
        return r

    # real-code panics and gob failures are violations in their own right; hangs / clock steps are not verdicts
    clean = []
    for s in segs:
        kind = s[0].get("kind")
        bad = [ln for ln in s if ln.get("e") in ("panic", "goberr", "hang", "clockstep")]
        if not bad:
            clean.append(s)
            continue
        b = bad[0]
        if b["e"] == "panic" and b.get("what") != "driver":
            chk.violation("C12:%s:panic:%s" % (kind, b.get("what")),
                          "%s of the real %s panicked on a reachable state: %s" % (b.get("what"), kind, b.get("msg")),
                          replay_obj(s, {"event": b}))
        elif b["e"] == "goberr":
            chk.violation("C12:%s:gob:%s" % (kind, b.get("what")),
                          "gob %s of a reachable %s state failed: %s" % (b.get("what"), kind, b.get("msg")),
                          replay_obj(s, {"event": b}))
        else:
            chk.inconclusive.append("driver: %s in case %s: %s" % (b["e"], s[0].get("case"), b.get("msg", "")))
    # the case header carries nested input; the trace specs only need the scalar fields
    slim = []
    for s in clean:
        h = {k: s[0][k] for k in ("e", "case", "kind", "nrep", "nelem")}
        slim.append([h] + s[1:])
    by_case = {s[0]["case"]: s for s in clean}
    chunks = 6 if quick else 14
    # M-level conformance: every case in the thorough tier, every other case of each data type in the quick tier
    mslim, nth = [], {}
    for sg in slim:
        k = sg[0]["kind"]
        nth[k] = nth.get(k, 0) + 1
        if not quick or nth[k] % 2 == 1:
            mslim.append(sg)
    with concurrent.futures.ThreadPoolExecutor(max_workers=2) as ex:
        fobs = ex.submit(V.fold_traces, work, "CRDTObs", "CRDTObs.cfg", slim, 2400, "trace.ndjson", chunks, 4)
        fimp = ex.submit(V.fold_traces, work, "CRDTImplTrace", "CRDTImplTrace.cfg", mslim, 2400, "trace.ndjson",
                         max(2, chunks // 2), 2)
        obs, mt = fobs.result(), fimp.result()
    chk.notes["phase_s"]["fold"] = round(time.time() - t0, 1)
    if collect_design:
        t0 = time.time()
        collect_design()
        chk.notes["phase_s"]["waiting_for_design_level_jobs"] = round(time.time() - t0, 1)
    # ---- P-level verdicts
    chk.states += obs["states"]
    chk.transitions += obs["transitions"]
    chk.traces += obs["accepted"]
    for e in obs["errors"]:
        chk.inconclusive.append("CRDTObs: " + e)
    # a value that breaks a law (StateFn) ends the folding of its case; fold such cases again with ReadOK
    # alone to see whether the history also ends in an observably wrong Read()
    lawseg = [r["seg"] for r in obs["rejected"] if r["kind"] == "invariant" and "StateFn" in r["text"]]
    lawseg.sort(key=lambda sg: (not sg[0]["case"].startswith(("cex", "directed")), sg[0]["kind"]))
    lawseg = [sg for k in ("aworset", "gcounter", "lww") for sg in [x for x in lawseg if x[0]["kind"] == k][:4]]
    rejected = list(obs["rejected"])
    if lawseg:
        ro = V.fold_traces(work, "CRDTObs", "CRDTObsRead.cfg", lawseg, 1200, "trace.ndjson", min(4, len(lawseg)), 4)
        chk.states += ro["states"]
        chk.transitions += ro["transitions"]
        rejected += [r for r in ro["rejected"] if r["kind"] == "invariant"]
    seen_keys = {}
    for r in rejected:
        seg = by_case[r["seg"][0]["case"]]
        kind = seg[0]["kind"]
        if r["kind"] == "stuck":
            chk.inconclusive.append("CRDTObs could not consume line %d of case %s (harness obligation WriterOK / numbering)" % (
                r["line_in_seg"], seg[0]["case"]))
            continue
        inv = "StateFn" if "StateFn" in r["text"] else "ReadOK" if "ReadOK" in r["text"] else "rejected"
        ln = seg[r["line_in_seg"] - 1] if 0 < r["line_in_seg"] <= len(seg) else {}
        how = ln.get("law") or ln.get("f") or "?"
        key = "C12:%s:%s:%s" % (kind, inv, how)
        seen_keys[key] = seen_keys.get(key, 0) + 1
        if seen_keys[key] > 1:
            continue  # one replay per failing class; the count is in the evidence
        what = {"ReadOK": "Read() of the real %s is not the declared read of the updates it has received",
                "StateFn": "two real %s values that have received the same updates differ in state or Read() "
                           "(merge not commutative/associative/idempotent, write not inflationary, or gob not the identity)",
                "rejected": "real %s history rejected by CRDTObs"}[inv] % kind
        chk.violation(key, "%s: value %s (%s) of case %s; %s" % (what, ln.get("v"), how, seg[0]["case"], r["text"]),
                      replay_obj(seg, {"line_in_seg": r["line_in_seg"], "offending": ln, "tlc": r["text"]}))
    if seen_keys:
        chk.notes["rejected_cases_by_class"] = seen_keys
    # ---- M-level conformance (drift only)
    chk.states += mt["states"]
    chk.transitions += mt["transitions"]
    chk.notes["m_level_cases_accepted"] = mt["accepted"]
    chk.notes["m_level_cases_checked"] = len(mslim)
    for r in mt["rejected"]:
        chk.drift.append({"spec": "CRDTImpl.tla", "case": r["seg"][0].get("case"), "kind": r["seg"][0].get("kind"),
                          "value": r["line_in_seg"] - 1, "text": r["text"]})
    for e in mt["errors"]:
        chk.drift.append({"spec": "CRDTImpl.tla", "error": e})
    nodump = sum(1 for s in clean for ln in s[1:] if ln.get("e") == "val" and not ln.get("dok"))
    if nodump:
        chk.drift.append({"spec": "c12drv dump", "error": "%d values could not be dumped through their gob form; "
                                                        "those are judged by Read() only" % nodump})
    for s in clean[:3] + clean[-3:]:
        chk.sample({"case": s[0]["case"], "kind": s[0]["kind"], "ids": s[0]["ids"], "elems": s[0]["elems"],
                    "steps": s[0]["input"]["steps"][:12],
                    "values": [{k: ln.get(k) for k in ("v", "f", "a", "b", "rs", "rn", "d")} for ln in s[1:8]]})
    chk.notes.update(gen_notes)
    chk.notes["cases_replayed"] = len(segs)
    chk.notes["values_recorded"] = sum(1 for ln in lines if ln.get("e") == "val")
    chk.notes["cases_by_kind"] = {k: sum(1 for s in segs if s[0].get("kind") == k) for k in ("gcounter", "aworset", "lww")}
    chk.assumptions += [
        "TLC/SANY, Json and CSV community modules",
        "every replica writes with its own identifier, and only on top of a state that contains its earlier writes "
        "(CRDTObs!WriterOK, discharged by the driver: writes happen along replica lines only)",
        "LWW stamps are time.Now(): the driver performs updates one at a time and waits for the wall clock to advance, so "
        "stamp order = update order; equal stamps (add wins ties) cannot be produced from outside",
        "increments are naturals that do not overflow int32",
        "the canonical dump reads the state through GobEncode (GCounterKeyVal / AddRemMaps / LWWSet wire layout); if that "
        "layout changes the dumps are dropped (drift) and values are judged by Read() only",
    ]
    chk.gaps += ["the CRDT resource around the values (broadcast, merge queue, abort) is C13"]
    return chk.finish(rule="walks covering every transition of the complete history graph of CRDTTypes.tla (2 replicas, 1 element, "
                           "3 updates, 1 message slot; quick: seeded sample of the covering walks, thorough: all of them + a seeded "
                           "sample of the covering walks of the 4-update graph) + TLC-simulated long histories (3 replicas, 2 "
                           "elements, 8 updates, 2 slots) + TLC counterexamples of "
                           "the pinned-tree transcriptions, each replayed on real GCounter/AWORSet/LWWSet values (ids/elements "
                           "from 6 value universes), followed by law probes (a|b vs b|a, a|a, (a|b)|c vs a|(b|c), s|w, gob); "
                           "every recorded value folded by TLC into CRDTObs.tla (ReadOK, StateFn) and CRDTImplTrace.tla (drift)")
