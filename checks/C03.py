"""C03 -- TLA+ operators evaluate as TLA+ defines them, or fail loudly.

spec/C03/ValTerms.tla    value universe as constructor terms (shared with C05), Val / Txt
spec/C03/OpsOracle.tla   P-spec: operator table, definedness, families; TLC is the evaluator
spec/C03/MCOpsOracle.*   design-level run: evaluates every defined row, PrintCanonical, exports rows.ndjson
spec/C03/RowProbe.tla    + RowEval.java: TLC evaluates rows one by one, its evaluation errors caught per row
spec/C03/OpsJudge.tla    verdict spec: compares what the library did on each row with TLC's result
harness/cmd/c03drv       evaluates every row on the real distsys/tla (recover + CPU watchdog)

Pipeline: TLC enumerates the rows -> c03drv evaluates them on the real library -> every row on which
the table predicts a TLC error is evaluated on its own by TLC (RowEval), so that "TLC reports an error
here" is TLC's statement, not the table's -> TLC (OpsJudge, on slices of the table) evaluates the printed
library results and emits one verdict per row.
"""
import concurrent.futures
import json
import os
import random
import re
import shutil
import subprocess
import tempfile
import time

import vcommon as V

JVM = ["-XX:ParallelGCThreads=2", "-XX:CICompilerCount=2"]   # many JVMs run side by side on a shared machine
OK_VERDICTS = ("AGREE", "LOUD_RESTRICTION", "BOTH_LOUD")
CATEGORY = {
    "WRONG_VALUE": "wrong-value",
    "VALUE_WHERE_ERROR": "value-where-tlc-errors",
    "LOUD_WHERE_VALUE": "loud-where-tlc-has-value",
    "PANIC_WHERE_VALUE": "panic-where-tlc-has-value",
    "PANIC_NOT_TLA_ERROR": "panic-not-tla-error",
    "HANG": "hang",
    "UNEVALUABLE": "wrong-value",
    "CHOOSE_ORDER_DEPENDENT": "choose-order-dependent",
}
NO_TLC_CONFIRM = {"SelectOOR"}  # range contract of the library's `with x \in S` helper, no TLA+ expression


def cfg_text(tier, seed, body, extra="", famlo=1, famhi=0):
    return 'CONSTANTS\n  Tier = "%s"\n  Seed = %d\n  FamLo = %d\n  FamHi = %d\n%s%s\n' % (tier, seed, famlo, famhi, extra, body)


# ------------------------------------------------------------------------------- TLC REPL

def repl_eval(exprs, workdir, nproc=8, timeout=900):
    """Evaluate TLA+ expressions one by one in TLC's REPL (errors are isolated per expression).
    Returns a list of (is_value, text) or None where the REPL gave no answer."""
    if not exprs:
        return []
    nproc = max(1, min(nproc, (len(exprs) + 7) // 8))
    slices = [list(range(i, len(exprs), nproc)) for i in range(nproc)]
    out = [None] * len(exprs)

    def work(idx):
        text = "\n".join(exprs[i] for i in idx) + "\n"
        d = tempfile.mkdtemp(prefix="repl.", dir=workdir)
        rc, o = V.run(["java", "-XX:+UseSerialGC", "-XX:TieredStopAtLevel=1", "-Xss64m", "-Djava.io.tmpdir=" + d,
                       "-cp", V.TLA_CP, "tlc2.REPL"], cwd=d, timeout=timeout, stdin=text)
        shutil.rmtree(d, ignore_errors=True)
        parts = o.split("(tla+) ")[1:]
        res = []
        for p in parts[:len(idx)]:
            p = p.strip()
            if not p:
                res.append(None)
            elif p.startswith("Error evaluating expression"):
                res.append((False, " ".join(p.split())[:300]))
            else:
                res.append((True, p))
        return idx, res

    with concurrent.futures.ThreadPoolExecutor(max_workers=nproc) as ex:
        for idx, res in ex.map(work, slices):
            for i, r in zip(idx, res):
                out[i] = r
    return out


# ------------------------------------------------------------------------------- TLC, row by row

class RowEval:
    """spec/C03/RowEval.java: one TLC process that loads RowProbe.tla (the table) and evaluates Probe(i) for the
    requested rows, catching TLC's evaluation errors per row."""

    def __init__(self, specdir, workdir, tier, seed):
        self.dir = os.path.join(workdir, "roweval")
        V.copy_specs(specdir, self.dir)
        with open(os.path.join(self.dir, "RowProbe.cfg"), "w") as f:
            f.write(cfg_text(tier, seed, "INIT OInit\nNEXT ONext"))
        rc, o = V.run(["javac", "-cp", V.TLA_JAR, "-d", ".", "RowEval.java"], cwd=self.dir, timeout=900)
        if rc != 0:
            raise V.Inconclusive("javac RowEval.java failed: %s" % o[-1500:])
        self.log = open(os.path.join(self.dir, "out.txt"), "w")
        self.proc = subprocess.Popen(["java", "-XX:+UseParallelGC", "-XX:ParallelGCThreads=2", "-XX:CICompilerCount=2", "-Xmx4g",
                                      "-Xss64m", "-cp", ".:" + V.TLA_CP, "RowEval", ".", "RowProbe", "Probe"],
                                     cwd=self.dir, stdin=subprocess.PIPE, stdout=self.log, stderr=subprocess.STDOUT, text=True)

    def evaluate(self, ids, timeout):
        """returns {id: (is_value, text)}"""
        try:
            self.proc.stdin.write("".join("%d\n" % i for i in ids))
            self.proc.stdin.close()
            self.proc.wait(timeout=timeout)
        except subprocess.TimeoutExpired:
            self.proc.kill()
            raise V.Inconclusive("RowEval (TLC row-by-row evaluation) timed out")
        except BrokenPipeError:
            pass
        self.log.close()
        out = open(os.path.join(self.dir, "out.txt"), errors="replace").read()
        res = {}
        for m in re.finditer(r"^R (\d+) (VALUE|ERROR) (.*)$", out, re.M):
            res[int(m.group(1))] = (m.group(2) == "VALUE", m.group(3)[:300])
        if "DONE" not in out or len(res) < len(set(ids)):
            raise V.Inconclusive("RowEval answered %d of %d rows: %s" % (len(res), len(set(ids)), out[-1500:]))
        return res

    def close(self):
        if self.proc.poll() is None:
            self.proc.kill()


# ------------------------------------------------------------------------------- driver

def run_driver(chk, drv, rows_path, rows, out_path, only=None):
    """Runs c03drv over the table, restarting it after every recorded hang. Returns
    (results by id, ids skipped after repeated hangs of one family)."""
    if os.path.exists(out_path):
        os.remove(out_path)
    by_id = {r["id"]: r for r in rows}
    last = max(by_id)
    skipped = []
    if only is not None:
        for i in only:
            rc, o = V.run([drv, "-rows", rows_path, "-out", out_path, "-only", str(i)], timeout=1800)
            if rc not in (0, 3):
                raise V.Inconclusive("c03drv failed rc=%s on row %d: %s" % (rc, i, o[-1500:]))
        return {r["id"]: r for r in V.read_jsonl(out_path)}, skipped
    start, hangs, restarts = 1, {}, 0
    while start <= last:
        rc, o = V.run([drv, "-rows", rows_path, "-out", out_path, "-from", str(start)], timeout=3000)
        if rc == 0:
            break
        if rc != 3:
            raise V.Inconclusive("c03drv failed rc=%s: %s" % (rc, o[-1500:]))
        restarts += 1
        if restarts > 60:
            raise V.Inconclusive("c03drv: more than 60 hanging rows, giving up")
        res = V.read_jsonl(out_path)
        hid = res[-1]["id"]
        fam = by_id[hid]["fam"]
        hangs[fam] = hangs.get(fam, 0) + 1
        start = hid + 1
        if hangs[fam] >= 2:  # two hangs in one family: skip the rest of the family (bounded cost)
            while start <= last and by_id[start]["fam"] == fam:
                skipped.append(start)
                start += 1
    return {r["id"]: r for r in V.read_jsonl(out_path)}, skipped


# ------------------------------------------------------------------------------- judge

def judge_chunk(specdir, workroot, name, tier, seed, entries, timeout, famlo, famhi, base):
    """entries: list of dict(id, out, str) of the families famlo..famhi, whose first row has id base+1 (the slice of
    the table generated in this TLC process numbers its rows from 1). Returns (verdicts {id: v}, [TLCResult...],
    unevaluable ids)."""
    entries = [dict(e, id=e["id"] - base) for e in entries]
    v, r, u = _judge_chunk(specdir, workroot, name, tier, seed, entries, timeout, famlo, famhi)
    return {i + base: x for i, x in v.items()}, r, [i + base for i in u]


def _judge_chunk(specdir, workroot, name, tier, seed, entries, timeout, famlo, famhi):
    work = os.path.join(workroot, name)
    V.copy_specs(specdir, work)
    with open(os.path.join(work, "go.ndjson"), "w") as f:
        for e in entries:
            f.write(json.dumps({"id": e["id"], "out": e["out"]}) + "\n")
    with open(os.path.join(work, "GoResults.tla"), "w") as f:
        f.write("---- MODULE GoResults ----\n(* generated: results of the real library, printed as TLA+ expressions *)\n"
                "EXTENDS Integers, Sequences, FiniteSets, TLC\n")
        vals = [e for e in entries if e["out"] == "value"]
        for e in vals:
            f.write("G%d == %s\n" % (e["id"], e["str"]))
        def tree(ids):   # balanced IF tree: the definition of a row's result is found in O(log n)
            if len(ids) == 1:
                return "G%d" % ids[0]
            m = len(ids) // 2
            return "(IF zi <= %d THEN %s ELSE %s)" % (ids[m - 1], tree(ids[:m]), tree(ids[m:]))
        if vals:
            f.write("Got(zi) == " + tree(sorted(e["id"] for e in vals)) + "\n")
        else:
            f.write("Got(zi) == FALSE\n")
        f.write("====\n")
    verdicts, results, uneval = {}, [], []
    start = 1
    for _ in range(12):
        with open(os.path.join(work, "OpsJudge.cfg"), "w") as f:
            f.write(cfg_text(tier, seed, "INIT JInit\nNEXT JNext\nCHECK_DEADLOCK FALSE", "  Start = %d\n" % start, famlo, famhi))
        res = V.tlc(work, "OpsJudge", cfg="OpsJudge.cfg", workers=1, timeout=timeout, deadlock=False,
                    extra=["-nowarning"], heap="4g", jvm=JVM)
        results.append(res)
        n = 0
        for m in re.finditer(r'<<"V", (\d+), "([A-Z_]+)">>', res.out):
            verdicts[int(m.group(1))] = m.group(2)
            n += 1
        done = start - 1 + n
        if done >= len(entries):
            break
        if res.timed_out or not (res.error or res.violation or res.rc != 0):
            raise V.Inconclusive("OpsJudge %s stopped after %d of %d rows: %s" % (name, done, len(entries), res.out[-1500:]))
        # TLC could not evaluate the printed result of entry done+1 (not a TLA+ value TLC accepts)
        bad = entries[done]
        if "GoResults" not in res.out and "G%d" % bad["id"] not in res.out:
            raise V.Inconclusive("OpsJudge %s failed at row %d for a reason not located in the library result: %s"
                                 % (name, bad["id"], res.out[-2000:]))
        verdicts[bad["id"]] = "UNEVALUABLE"
        uneval.append(bad["id"])
        start = done + 2
        if start > len(entries):
            break
    else:
        raise V.Inconclusive("OpsJudge %s: more than 12 unevaluable results" % name)
    return verdicts, results, uneval


def fix_minint(s):
    return s.replace("-2147483648", "((-2147483647) - 1)")


def run(chk):
    holder = {}
    try:
        return _run(chk, holder)
    finally:   # never leave the row-by-row TLC process behind (it waits on stdin)
        fu = holder.get("roweval")
        if fu is not None:
            try:
                fu.result(timeout=600).close()
            except Exception:
                pass


def _run(chk, holder):
    specsrc = os.path.join(V.SPEC, "C03")
    quick = chk.quick()
    tier, seed = chk.tier, chk.seed
    replay = None
    if chk.replay:
        replay = json.load(open(chk.replay))
        tier, seed = replay.get("tier", tier), int(replay.get("seed", seed))
    rnd = random.Random(seed)
    t0, timing = time.time(), {}
    chk.notes["phase_seconds"] = timing
    work = os.path.join(chk.tmp, "spec")
    V.copy_specs(specsrc, work)

    # 1. design level: TLC enumerates the universe and the rows, evaluates every defined row
    with open(os.path.join(work, "MCOpsOracle.cfg"), "w") as f:
        f.write(cfg_text(tier, seed, "INIT OInit\nNEXT ONext\nINVARIANTS PrintCanonical DefinedHasValue\nCHECK_DEADLOCK FALSE"))
    pool = concurrent.futures.ThreadPoolExecutor(max_workers=5)
    build = pool.submit(V.build_driver, "c03drv", chk.bindir)
    roweval = pool.submit(RowEval, specsrc, chk.tmp, tier, seed)   # loads the table in a second TLC process meanwhile
    holder["roweval"] = roweval
    res = V.tlc(work, "MCOpsOracle", cfg="MCOpsOracle.cfg", workers=1, timeout=1500 if quick else 3000,
                deadlock=False, extra=["-nowarning"], heap="4g", jvm=JVM)
    chk.add_tlc("MCOpsOracle (%s): every defined row evaluated by TLC; PrintCanonical, DefinedHasValue" % tier, res)
    rows_path = os.path.join(work, "rows.ndjson")
    if not res.ok or not os.path.exists(rows_path):
        raise V.Inconclusive("design-level TLC run failed: %s" % (res.error or res.violation or res.out[-1500:]))
    chk.exhaustive = True
    timing["design_tlc"] = round(time.time() - t0, 1)
    rows = V.read_jsonl(rows_path)
    by_id = {r["id"]: r for r in rows}
    chk.notes["rows"] = len(rows)
    chk.notes["families"] = len({r["fam"] for r in rows})
    chk.notes["rows_tlc_value"] = sum(1 for r in rows if r["def"])
    chk.notes["rows_tlc_error_predicted"] = sum(1 for r in rows if not r["def"])
    chk.notes["operators"] = sorted({r["op"] for r in rows})

    # 2. the real library
    drv = build.result()
    only = None
    if replay:
        want = {(c["op"], c["lam"], c["txt"]) for c in replay["case"]["rows"]}
        only = [r["id"] for r in rows if (r["op"], r["lam"], r["txt"]) in want]
        if not only:
            raise V.Inconclusive("replay rows not found in the current table")
    results, skipped = run_driver(chk, drv, rows_path, rows, os.path.join(chk.tmp, "results.ndjson"), only)
    timing["driver_done_at"] = round(time.time() - t0, 1)
    if skipped:
        chk.gaps.append("%d rows not evaluated after two hangs in their family: ids %s..." % (len(skipped), skipped[:8]))
    chk.notes["rows_evaluated_on_library"] = len(results)
    unsupported = [i for i, r in results.items() if r["out"] == "unsupported"]
    if unsupported:
        raise V.Inconclusive("driver has no binding for rows %s" % unsupported[:5])

    # 3. anchor "TLC reports an error" in TLC itself: every row the table predicts an error for is evaluated by
    #    TLC's evaluator on its own (RowEval), the evaluation error caught per row.
    errs = [r for r in rows if not r["def"] and r["op"] not in NO_TLC_CONFIRM and r["id"] in results]
    probe = pool.submit(lambda: roweval.result().evaluate([r["id"] for r in errs], 1500 if quick else 4000))
    # the TLA+ source text shown for a row (RowTxt/Txt, used in reports and replays) denotes the table's value:
    # a seeded sample of defined rows is re-evaluated from its text in the TLC REPL
    defs = [r for r in rows if r["def"] and r["id"] in results and r["op"] not in NO_TLC_CONFIRM]
    sample_def = rnd.sample(defs, min(10 if quick else 80, len(defs)))
    texts = pool.submit(repl_eval, ["(%s) = (%s)" % (r["txt"], fix_minint(r["exp"])) for r in sample_def], chk.tmp,
                        1 if quick else 4, 900 if quick else 2400)

    # 4. TLC judges every recorded result
    entries = [dict(id=i, out=results[i]["out"], str=results[i].get("str", "")) for i in sorted(results)]
    nchunks = 1 if only else (3 if quick else 8)
    # slices of consecutive families with about the same number of rows
    fams = sorted({r["fam"] for r in rows})
    famrows = {f: [] for f in fams}
    for r in rows:
        famrows[r["fam"]].append(r["id"])
    per = max(1, len(rows) // nchunks)
    slices, cur, n = [], [], 0
    for f in fams:
        cur.append(f)
        n += len(famrows[f])
        if n >= per and len(slices) < nchunks - 1:
            slices.append(cur)
            cur, n = [], 0
    if cur:
        slices.append(cur)
    verdicts, uneval = {}, []
    with concurrent.futures.ThreadPoolExecutor(max_workers=len(slices)) as ex:
        futs = []
        for i, fs in enumerate(slices):
            lo, hi = fs[0], fs[-1]
            base = min(famrows[lo]) - 1
            ids = {j for f in fs for j in famrows[f]}
            part = [e for e in entries if e["id"] in ids]
            if not part:
                continue
            futs.append(ex.submit(judge_chunk, work, os.path.join(chk.tmp, "judge"), "c%d" % i, tier, seed, part,
                                  2400 if quick else 6000, lo, hi, base))
        for i, fu in enumerate(futs):
            v, ress, un = fu.result()
            verdicts.update(v)
            uneval += un
            for r_ in ress:
                chk.tlc_jobs.append(r_.summary("OpsJudge slice %d" % i))
                chk.states += r_.distinct
                chk.transitions += r_.generated
    missing = [e["id"] for e in entries if e["id"] not in verdicts]
    if missing:
        raise V.Inconclusive("no verdict for %d rows (first %s)" % (len(missing), missing[:5]))

    timing["judge_done_at"] = round(time.time() - t0, 1)
    answers = probe.result()
    timing["roweval_done_at"] = round(time.time() - t0, 1)
    tlc_error_confirmed = {i for i, a in answers.items() if not a[0]}
    pessimistic = [by_id[i] for i, a in answers.items() if a[0]]
    chk.notes["predicted_error_rows_evaluated_one_by_one_in_tlc"] = len(answers)
    chk.notes["tlc_error_confirmed_rows"] = len(tlc_error_confirmed)
    chk.notes["tlc_error_messages"] = sorted({re.sub(r"[-0-9]+", "N", a[1])[:90] for a in answers.values() if not a[0]})[:25]
    for r in pessimistic[:40]:   # not judged: the table's prediction for this row is wrong
        chk.drift.append({"spec": "OpsOracle.tla Def", "row": r["txt"],
                          "note": "TLC evaluates this row although Def predicts an error; row not judged"})
    chk.notes["rows_with_pessimistic_def_not_judged"] = len(pessimistic)
    for r in pessimistic:
        verdicts.pop(r["id"], None)
    bad_text = [(r["txt"], a) for r, a in zip(sample_def, texts.result()) if a is not None and not (a[0] and a[1] == "TRUE")]
    if bad_text:
        raise V.Inconclusive("row text and table disagree inside TLC (spec inconsistency): %s" % bad_text[:3])
    timing["text_check_done_at"] = round(time.time() - t0, 1)

    # 5. report
    counts = {}
    groups = {}
    for i, v in verdicts.items():
        counts[v] = counts.get(v, 0) + 1
        if v in OK_VERDICTS:
            continue
        r = by_id[i]
        if v in ("VALUE_WHERE_ERROR", "BOTH_LOUD", "PANIC_NOT_TLA_ERROR") and r["op"] not in NO_TLC_CONFIRM \
                and i not in tlc_error_confirmed:
            raise V.Inconclusive("row %d judged as a TLC-error row without TLC's error having been seen" % i)
        key = "C03:op=%s:args=%s:%s" % (r["op"] + ("/" + r["lam"] if r["lam"] else ""), r["cls"], CATEGORY[v])
        groups.setdefault(key, []).append(i)
    chk.traces = sum(counts.get(v, 0) for v in OK_VERDICTS)
    chk.notes["verdict_counts"] = counts
    for key in sorted(groups):
        ids = sorted(groups[key], key=lambda i: (i not in tlc_error_confirmed, i))
        ex = [dict(id=i, op=by_id[i]["op"], lam=by_id[i]["lam"], txt=by_id[i]["txt"], tlc=by_id[i]["exp"],
                   library=results[i]["out"] + (": " + results[i]["str"] if results[i]["out"] == "value" else
                                                (": " + results[i].get("msg", "")[:120])),
                   verdict=verdicts[i], tlc_error_seen=(i in tlc_error_confirmed)) for i in ids[:6]]
        what = "%d row(s), e.g. %s : TLC %s, library %s" % (len(ids), ex[0]["txt"], ex[0]["tlc"], ex[0]["library"])
        chk.violation(key, what, {"rows": ex, "count": len(ids)})
    agree = [i for i in sorted(verdicts) if verdicts[i] == "AGREE"]
    for i in (rnd.sample(agree, min(3, len(agree))) +
              [j for j in sorted(verdicts) if verdicts[j] == "BOTH_LOUD"][:1] +
              [j for j in sorted(verdicts) if verdicts[j] == "LOUD_RESTRICTION"][:1]):
        chk.sample({"row": by_id[i]["txt"], "tlc": by_id[i]["exp"], "library": results[i]["out"] + " " + results[i].get("str", ""),
                    "verdict": verdicts[i]})
    chk.assumptions += [
        "TLC/SANY/Json module/TLC REPL are the reference evaluator",
        "binding step: TLC evaluates the text the library result was printed as (harness/internal/c03val.Print walks the value "
        "through IsSet/AsSet/... of the public API) and compares TLC's own printed forms of both values; PrintCanonical "
        "(checked in the design-level run) justifies comparing printed forms",
        "every row on which the table predicts a TLC error is evaluated on its own by TLC's evaluator (spec/C03/RowEval.java "
        "drives tlc2.tool.impl.FastTool on RowProbe.tla) and the error is seen before the row is judged as an error row",
        "CHOOSE with several witnesses: any witness, equal for three insertion orders; ToString: the text must denote the value",
    ]
    chk.gaps += [
        "IF/CASE/LET, /\\, \\/, => are compiled to Go control flow, not library calls (covered by C02)",
        "SelectSeq is unsupported by the compiler (ModuleSelectSeq panics 'implement me')",
        "strings as sequences of characters (Len(\"ab\") = 2 in TLC) are not exercised",
        "a..b with b = 2^31-1 cannot be enumerated by TLC itself (and ModuleDotDotSymbol loops forever there); not in the table",
    ]
    return chk.finish(rule="rows = operator families x argument classes of the constructor universe (depth <= %s), generated and "
                           "evaluated by TLC (OpsOracle.tla); every row evaluated on the real distsys/tla by c03drv; every result "
                           "judged by TLC (OpsJudge.tla): same value / loud where TLC errors / loud only under the two documented "
                           "restrictions / no hang. states = rows enumerated (design) + rows judged" % ("2" if quick else "3, sampled with VERIF_SEED"))
