"""C08 -- the generated Raft KV store keeps the Raft safety invariants.

spec: the repository's systems/raftkvs/raftkvs.tla (invariants as written there) restricted to
per-link FIFO delivery by spec/C08/RaftFIFO.tla (the property's quantifier).
design level: TLC exhaustive on small cuts + simulation on 3-5 servers with crashes.
binding: the generated archetypes of systems/raftkvs/raftkvs.go (all seven, five per server) run
under the real MPCalContext.Run behind the scheduler gate over spec-state resources with a
per-link FIFO network; seeded adversarial schedules (timeouts, suspicions, crashes at label
boundaries); every committed step is validated by TLC as a step of raftkvs.tla and every
invariant + LeaderAppendOnly is evaluated in every reached state. TLC simulation behaviours are
replayed through the generated code (guided, S->I).
"""
import os, shutil
import vcommon as V
import tracegen as T
import sysrun as S

INV = ["ElectionSafety", "LogMatching", "LeaderCompleteness", "StateMachineSafety", "ApplyLogOK", "plogOK"]


def consts(n, clients, fail, maxfail, buf, strings=2):
    return {"defaultInitValue": "defaultInitValue", "ExploreFail": "TRUE" if fail else "FALSE", "Debug": "FALSE",
            "NumServers": str(n), "NumClients": str(clients), "BufferSize": str(buf), "MaxTerm": "1000", "MaxCommitIndex": "1000",
            "MaxNodeFail": str(maxfail), "LogConcat": "2", "LogPop": "1", "LeaderTimeoutReset": "TRUE", "NumRequests": "1",
            "AllStrings": "{" + ", ".join('"s%d"' % (i + 1) for i in range(strings)) + "}"}


def run(chk):
    work = os.path.join(chk.tmp, "spec")
    V.copy_specs(os.path.join(V.SPEC, "C08"), work)
    shutil.copy(os.path.join(V.REPO, "systems/raftkvs/raftkvs.tla"), work)
    text = open(os.path.join(work, "raftkvs.tla")).read()
    quick = chk.quick()

    parts = os.environ.get("VERIF_C08_PARTS", "1234")   # development aid: run only some parts
    # 1. design level
    jobs = [("MC_n1", dict(workers=4, timeout=900)), ("MC_n2_small", dict(workers=12, timeout=2400))] if "1" in parts else []
    if not quick:
        jobs.append(("MC_n2", dict(workers=14, timeout=3000, extra=[])))
    for name, kw in jobs:
        if name == "MC_n2":
            # the larger 2-server cut does not finish exhaustively (DESIGN C08): simulate it
            for i, res in enumerate(V.tlc_simulate_budget(work, "RaftFIFO", name + ".cfg", 300, 120, chk.seed, workers=8)):
                chk.add_tlc("RaftFIFO %s simulation (%s)" % (name, "probe" if i == 0 else "main"), res)
            continue
        res = V.tlc(work, "RaftFIFO", cfg=name + ".cfg", deadlock=False, **kw)
        chk.add_tlc("RaftFIFO %s exhaustive" % name, res)
    sims = [("MC_n3_sim", 45 if quick else 400, 160)] if "1" in parts else []
    if not quick and "1" in parts:
        sims += [("MC_n3_2c_sim", 300, 200), ("MC_n5_sim", 300, 200)]
    for name, budget, depth in sims:
        for i, res in enumerate(V.tlc_simulate_budget(work, "RaftFIFO", name + ".cfg", budget, depth, chk.seed, workers=8)):
            chk.add_tlc("RaftFIFO %s simulation depth=%d (%s)" % (name, depth, "probe" if i == 0 else "main"), res)

    # 2. real-code executions (spec-faithful executor), per-link FIFO network
    drv = V.build_driver("sysdrv", chk.bindir)
    plans = [(3, 2, 1, 4, 500)] if quick else [(1, 1, 0, 4, 300), (2, 2, 1, 6, 800), (3, 2, 1, 12, 1200), (4, 2, 1, 6, 1000), (5, 3, 2, 6, 1200)]
    if "2" not in parts:
        plans = []
    for (n, clients, maxfail, runs, steps) in plans:
        # every second plan offers requests on one key only, so that Puts overwrite each other on every replica
        hot = 1 if (len(plans) == 1 or plans.index((n, clients, maxfail, runs, steps)) % 2 == 1) else 0
        args = "fifo=1,clients=%d,maxfail=%d,fail=%d,buffer=3,strings=2,hotkey=%d" % (clients, maxfail, 1 if maxfail else 0, hot)
        out = S.drive(chk, drv, "raftkvs", n, "biased", runs, steps, args=args, tag="-c%d" % clients)
        rs = T.load_steps(out)
        S.validate_executions(chk, "C08", work, "raftkvs", text, rs, consts(n, clients, maxfail > 0, maxfail, 3), INV,
                              ["LeaderAppendOnly"], what="raftkvs n=%d clients=%d maxfail=%d" % (n, clients, maxfail),
                              chunks=min(runs, 6), timeout=2400, conform=False)
        if rs:
            chk.sample({"kind": "execution under Run (FIFO network)", "n": n, "policy": rs[0]["meta"].get("policy"),
                        "seed": rs[0]["meta"].get("seed"), "steps": len(rs[0]["states"]), "schedule_prefix": S.schedule_of(rs[0], 12)})

    # 3. guided replay of TLC behaviours of the FIFO spec through the generated code (S->I)
    gcfg = "MC_n3_sim.cfg"
    res, behs = (None, []) if "3" not in parts else T.simulate_behaviours(work, "RaftFIFO", gcfg, 3 if quick else 40, 60 if quick else 120, chk.seed, timeout=900)
    if res is not None:
        chk.add_tlc("RaftFIFO MC_n3_sim behaviours for guided replay", res)
    for b in behs:
        for st in b:  # the Go dump has no `order` variable
            st["state"] = st["state"].replace("]", "]")
    behs = [[dict(x, state=_drop_var(x["state"], "order")) for x in b] for b in behs if b]
    if behs:
        followed, total, gout = S.guided(chk, "C08", drv, work, "raftkvs", 3, "fifo=1,clients=1,maxfail=1,fail=1,buffer=3,strings=2",
                                         behs, "raftkvs guided n=3", as_violation=False)
        chk.notes["guided_behaviours_followed"] = "%d/%d" % (followed, total)
        rs = T.load_steps(gout)
        S.validate_executions(chk, "C08", work, "raftkvs", text, rs, consts(3, 1, True, 1, 3), INV, ["LeaderAppendOnly"],
                              what="raftkvs guided n=3", chunks=4, timeout=2400, conform=False)
    # 4. walks deep into the reachable space with ALL successors of every visited state (fresh-context executor):
    #    the Raft invariants and the look-ahead oracle ElectableComplete (spec/C08/RaftAhead.tla; an invariant of
    #    the design, checked by the TLC jobs above) are evaluated by TLC in every one of these real-code states.
    #    A look-ahead alarm is not a verdict by itself: the driver replays the walk to the flagged state and
    #    explores directed continuations (only the would-be winner's election timer fires); the verdict is a
    #    Raft invariant violated in a state of such a real-code continuation.
    variables = T.extract_vars(text)
    wplans = [(3, 2, 1, 2, 1200)] if quick else [(3, 2, 1, 10, 2500), (5, 2, 2, 4, 1500), (3, 3, 1, 6, 1500)]
    if "4" not in parts:
        wplans = []
    wstats = []
    for (n, clients, maxfail, runs, steps) in wplans:
        args = "fifo=1,clients=%d,maxfail=%d,fail=%d,buffer=3,strings=2,hotkey=1" % (clients, maxfail, 1 if maxfail else 0)
        edges = 7000
        out = S.drive(chk, drv, "raftkvs", n, "walk-biased", runs, steps, args=args, tag="-ahead", fanout=edges)
        cs = consts(n, clients, maxfail > 0, maxfail, 3)
        what = "raftkvs walk n=%d clients=%d maxfail=%d" % (n, clients, maxfail)
        st, flagged = S.walk_safety(chk, "C08", work, "RaftAhead", variables, out, cs, INV + ["ElectableComplete"], what, piece=9000)
        st["confirmed"] = 0
        for f in flagged[:6]:
            ln = f["line"] or {}
            if f["invariant"] != "ElectableComplete":
                chk.violation("C08:%s:walk:%s" % (f["invariant"], ln.get("label")),
                              "%s: %s in a state the generated code reaches (%s of walk %d, step %d, label %s)" % (what, f["tlc"], f["kind"], f["run"] + 1, f["step"], ln.get("label")),
                              {"what": what, "meta": f["meta"], "kind": f["kind"], "step": f["step"], "proc": ln.get("proc"), "label": ln.get("label"),
                               "choices": ln.get("choices"), "changed": ln.get("d"), "pre_state": f["pre_state"], "state": f["state"]})
                continue
            cont = {"run": f["run"] + 1, "step": f["step"], "walks": 12 if quick else 40, "len": 140}
            if f["kind"] == "succ":
                cont.update({"proc": ln.get("proc"), "label": ln.get("label"), "choices": [c["got"] if isinstance(c, dict) else c for c in (ln.get("choices") or [])]})
            cout = S.drive(chk, drv, "raftkvs", n, "walk-biased", runs, steps, args=args, tag="-cont%d" % len(wstats), fanout=edges, cont=cont)
            fails = [l for l in V.read_jsonl(cout) if l["e"] == "cont-fail"]
            if fails:
                chk.drift.append({"what": what, "lookahead": "ElectableComplete flagged, state could not be re-created", "msg": fails[0].get("msg")})
                continue
            st2, fl2 = S.walk_safety(chk, "C08", work, "RaftAhead", variables, cout, cs, INV, what + " continuation", piece=9000)
            if fl2:
                g = fl2[0]
                st["confirmed"] += 1
                chk.violation("C08:%s:lookahead-confirmed:%s" % (g["invariant"], ln.get("label")),
                              "%s: after the step at label %s (process %s) some server that can win an election lacks a committed entry; a continuation of that real-code execution "
                              "(only message deliveries and the election time-out of one server) reaches a state in which %s" % (what, ln.get("label"), ln.get("proc"), g["tlc"]),
                              {"what": what, "meta": f["meta"], "flagged": {"kind": f["kind"], "step": f["step"], "proc": ln.get("proc"), "label": ln.get("label"), "choices": ln.get("choices"), "changed": ln.get("d")},
                               "pre_state": f["pre_state"], "continuation": g["meta"], "continuation_step": g["step"], "violating_state": g["state"]})
            else:
                chk.drift.append({"what": what, "lookahead": "ElectableComplete flagged at %s step %d label %s; %d directed continuations did not reach a violation of the stated invariants" % (f["kind"], f["step"], ln.get("label"), 3 * cont["walks"])})
        wstats.append(dict(st, n=n, runs=runs, steps=steps))
    chk.notes["walks_with_lookahead"] = wstats

    chk.assumptions += ["TLC/SANY", "per-link FIFO delivery (the property's quantifier): enforced by RaftFIFO.tla at design level and by the executor's network",
                        "spec-state env resources (harness/internal/sysdefs/raftkvs.go) implement the ten mapping macros of raftkvs.tla; every state they produce is validated against raftkvs.tla",
                        "MaxTerm/MaxCommitIndex are model-checking constraints only; executions are not bounded by them"]
    chk.gaps.append("real bootstrap (relaxed mailboxes, timers, shared-variable manager) is not driven by this check; the resources are covered by C06/C07/C19")
    chk.gaps.append("a defect whose first wrong step keeps every stated invariant (e.g. committing an old-term entry, Raft figure 8) is decided by C02's step conformance; "
                    "neither seeded walks nor 29 M TLC-simulated states reach a state in which the look-ahead oracle or the invariants expose it (DESIGN 12.7)")
    return chk.finish(rule="seeded adversarial executions of the seven generated raftkvs archetypes (1-5 servers, 1-3 clients, minority crashes, per-link FIFO) "
                           "validated step by step by TLC against raftkvs.tla with the Raft invariants; TLC exhaustive/simulation of RaftFIFO.tla; guided replay of TLC behaviours")


def _drop_var(state, var):
    # remove `var |-> value` from a record text produced by tracegen.parse_tlc_states
    import re
    parts = _split_fields(state[1:-1])
    return "[" + ", ".join(p for p in parts if not p.startswith(var + " |-> ")) + "]"


def _split_fields(s):
    out, depth, cur, i = [], 0, "", 0
    instr = False
    while i < len(s):
        c = s[i]
        if instr:
            cur += c
            if c == "\\":
                cur += s[i + 1]; i += 1
            elif c == '"':
                instr = False
        elif c == '"':
            instr = True; cur += c
        elif s.startswith("<<", i) or s.startswith(">>", i):
            depth += 1 if s[i] == "<" else -1
            cur += s[i:i + 2]; i += 1
        elif c in "([{":
            depth += 1; cur += c
        elif c in ")]}":
            depth -= 1; cur += c
        elif c == "," and depth == 0:
            out.append(cur.strip()); cur = ""
        else:
            cur += c
        i += 1
    if cur.strip():
        out.append(cur.strip())
    return out
