"""C15 -- the generated lock service grants the lock to one client at a time, in order.

spec: the repository's systems/locksvc/locksvc.tla (unchanged) + spec/C15/LockOrder.tla
(history variables arrivals/served; MutualExclusion, ServedInArrivalOrder, GrantOnlyToWaiting).
binding: the generated archetypes of systems/locksvc/locksvc.go run over spec-state env resources
(harness/internal/mpexec, sysdefs): (1) the complete state graph for small N explored with the
real archetype code (fresh context per step), every edge validated by TLC as a step of the spec
and the graph compared in size with TLC's own; (2) random executions under the real
MPCalContext.Run behind the scheduler gate for larger N, validated the same way.
"""
import os, shutil
import vcommon as V
import tracegen as T

CONST = lambda n: {"NumClients": str(n), "defaultInitValue": "defaultInitValue"}


def run(chk):
    work = os.path.join(chk.tmp, "spec")
    V.copy_specs(os.path.join(V.SPEC, "C15"), work)
    shutil.copy(os.path.join(V.REPO, "systems/locksvc/locksvc.tla"), work)
    text = open(os.path.join(work, "locksvc.tla")).read()
    variables = T.extract_vars(text)
    quick = chk.quick()
    design_sizes = [1, 2, 3, 4] if quick else [1, 2, 3, 4, 5]
    bfs_sizes = [1, 2, 3] if quick else [1, 2, 3, 4]
    rand_sizes = {4: 6, 6: 4} if quick else {4: 40, 5: 40, 6: 30, 8: 20}

    # 1. design level: LockOrder over the shipped spec, exhaustive
    for n in design_sizes:
        cfg = "mc%d.cfg" % n
        open(os.path.join(work, cfg), "w").write(open(os.path.join(work, "MCLockOrder.cfg")).read().replace("NumClients = 2", "NumClients = %d" % n))
        res = V.tlc(work, "LockOrder", cfg=cfg, workers=8, timeout=1500, deadlock=False)
        chk.add_tlc("LockOrder exhaustive NumClients=%d (MutualExclusion, ServedInArrivalOrder, GrantOnlyToWaiting)" % n, res)
    if chk.inconclusive:
        return chk.finish(rule="design-level TLC failed")
    chk.exhaustive = True

    drv = V.build_driver("sysdrv", chk.bindir)
    inv = ["MutualExclusion", "ServedInArrivalOrder"]
    props = ["GrantOnlyToWaiting"]
    # P-level mode: the real-code states are judged by the properties; conformance of each step to
    # locksvc.tla's Next is C02's business (here a mismatch is drift)
    kw = dict(conform=False, hist_step="HStep", use_init="HInit", reset_extra="/\\ arrivals' = <<>> /\\ served' = <<>>")

    def report(rej, runs_meta, what):
        for r in rej:
            meta = runs_meta[r["run_index"]]
            if r["kind"] == "stuck":
                chk.drift.append({"what": what, "state_index": r["state_index"], "text": r["text"]})
                continue
            name = "step-not-in-spec" if r["kind"] == "stuck" else next((i for i in inv + props if i in r["text"]), "property")
            chk.violation("C15:%s:%s" % (name, what),
                          "generated lock service (%s): %s at state %d of the execution" % (what, r["text"], r["state_index"]),
                          {"what": what, "tlc": r["text"], "state_index": r["state_index"], "execution": meta})

    # 2. complete graph with the real archetype code, small N
    for n in bfs_sizes:
        # TLC's own graph of the shipped spec first: its size bounds the exploration of the Go's graph
        cfg = "plain%d.cfg" % n
        open(os.path.join(work, cfg), "w").write("CONSTANTS\n defaultInitValue = defaultInitValue\n NumClients = %d\nINIT Init\nNEXT Next\nCHECK_DEADLOCK FALSE\nINVARIANT Safety\n" % n)
        dot = os.path.join(work, "g%d.dot" % n)
        r2 = V.tlc(work, "locksvc", cfg=cfg, workers=1, timeout=900, deadlock=False, dump=dot)
        chk.add_tlc("locksvc.tla state graph NumClients=%d" % n, r2)
        ns, ne = T.dot_counts(dot) if r2.ok else (0, 0)
        cap = 3 * ns + 500 if ns else 20000
        out = os.path.join(chk.tmp, "bfs%d.ndjson" % n)
        rc, o = V.run([drv, "-system", "locksvc", "-n", str(n), "-policy", "bfs", "-max-steps", str(cap), "-out", out], timeout=1200)
        if rc != 0:
            raise V.Inconclusive("sysdrv bfs failed: " + o[-2000:])
        g = T.load_graph(out)
        for e in g["errors"]:
            chk.violation("C15:go-error:%s" % e.get("label"), "generated archetype failed from a reachable state: %s" % e.get("msg"), e)
        walks = T.graph_walks(g)
        if sum(len(w) for w in walks) > 12000:   # a graph far larger than the spec's: judge a bounded part of it
            tot, keep = 0, []
            for w in walks:
                if tot + len(w) > 12000:
                    break
                keep.append(w); tot += len(w)
            chk.drift.append({"what": "graph n=%d" % n, "note": "Go graph truncated for validation", "walks": len(walks), "kept": len(keep)})
            walks = keep
        res = T.validate_runs(work, "LockOrder", variables, walks, CONST(n), inv, props, chunks=8, timeout=1500, **kw)
        chk.states += res["states"]; chk.transitions += res["transitions"]; chk.traces += res["accepted"]
        for e in res["errors"]:
            chk.inconclusive.append("trace validation (bfs n=%d): %s" % (n, e[:600]))
        report(res["rejected"], walks, "graph n=%d" % n)
        gs, ge = g["summary"]["states"], g["summary"]["edges"]
        chk.notes["graph_n%d" % n] = {"tlc_states": ns, "tlc_edges": ne, "go_states": gs, "go_edges": ge, "walks": len(walks), "go_complete": g["summary"].get("complete")}
        if (ns, ne) != (gs, ge):
            # conformance is C02's property; here a different graph only means the coverage claim "all reachable states" is about the Go's own graph
            chk.drift.append({"what": "graph n=%d" % n, "go": [gs, ge], "tlc": [ns, ne]})
        if walks:
            chk.sample({"kind": "graph walk", "n": n, "states": walks[-1][:3]})

    # 3. random executions under the real Run loop, larger N
    for n, runs in rand_sizes.items():
        out = os.path.join(chk.tmp, "rand%d.ndjson" % n)
        rc, o = V.run([drv, "-system", "locksvc", "-n", str(n), "-policy", "random", "-runs", str(runs), "-seed", str(chk.seed),
                       "-max-steps", "400", "-out", out], timeout=1200)
        if rc != 0:
            raise V.Inconclusive("sysdrv random failed: " + o[-2000:])
        rs = T.load_steps(out)
        for r in rs:
            for e in r["errors"]:
                chk.violation("C15:go-error:%s" % e.get("label"), "generated archetype failed during an execution: %s" % e.get("msg"),
                              {"n": n, "meta": r["meta"], "error": e, "lines": r["lines"][-6:]})
        res = T.validate_runs(work, "LockOrder", variables, [r["states"] for r in rs], CONST(n), inv, props, chunks=8, timeout=1500, **kw)
        chk.states += res["states"]; chk.transitions += res["transitions"]; chk.traces += res["accepted"]
        for e in res["errors"]:
            chk.inconclusive.append("trace validation (random n=%d): %s" % (n, e[:600]))
        report(res["rejected"], [dict(r["meta"], steps=[(l.get("proc"), l.get("label")) for l in r["lines"] if l["e"] == "step"]) for r in rs], "run n=%d" % n)
        if rs:
            chk.sample({"kind": "execution under Run", "n": n, "seed": rs[0]["meta"].get("seed"),
                        "schedule": [(l.get("proc"), l.get("label")) for l in rs[0]["lines"] if l["e"] == "step"][:25]})
    chk.assumptions += ["TLC/SANY", "spec-state env resources of harness/internal/mpexec implement locksvc's ReliableLink macro (every state they produce is itself validated against locksvc.tla)",
                        "network is the spec's bag (any delivery order)"]
    chk.gaps.append("real relaxed-mailbox wiring of locksvc_test.go is not exercised here (mailbox guarantees are C06)")
    return chk.finish(rule="complete state graph of the generated archetypes for NumClients in %s (edge-covering walks, every step validated by TLC against "
                           "LockOrder.tla over the shipped locksvc.tla; graph size equal to TLC's) + seeded random executions under MPCalContext.Run for %s"
                           % (bfs_sizes, sorted(rand_sizes)))
