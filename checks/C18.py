"""C18 -- execution traces are faithful and causally consistent.

spec/C18/Tracing.tla        P-spec as a trace specification: OncePerAttempt, ExactElements, OldValueHints,
                            ReplayLocals, OwnClock, Causal, folded by TLC over the recorded attempts (verdicts)
spec/C18/VClock.tla         M-spec of the vector-clock plumbing (operators; Fix = "none" pinned / "vars" repaired)
spec/C18/MCVClock.tla       all programs x schedules within bounds on the M-spec (design level, Causal, VarClocksMonotone),
                            the random program generator (-simulate, one case per behaviour) and the exhaustive
                            counterexample generator of the broken variant Fix = "vars-rollback" (seed C18-B)
spec/C18/TracePatterns.tla  directed family of communication patterns, exported by TLC
spec/C18/VClockTrace.tla    M-level conformance of the logged clocks (a mismatch is drift, not a verdict)
harness/cmd/c18drv          runs the cases on the real runtime (PGO_TRACE_DIR set at process start) under a
                            scheduler gate over real locals / LocalShared / channels / TCP mailboxes, and the
                            generated locksvc over real TCP mailboxes; logs ground truth + raw recorder output
"""
import concurrent.futures
import json
import os
import random
import re
import shutil
import tempfile

import vcommon as V

ID = "C18"
INVS = [("once", "OncePerAttempt"), ("exact", "ExactElements"), ("hints", "OldValueHints"),
        ("replay", "ReplayLocals"), ("own", "OwnClock"), ("causal", "Causal")]


# ----------------------------------------------------------------------------- helpers


def split_cases(lines):
    segs, cur = [], None
    for ln in lines:
        if ln.get("e") == "case":
            cur = [ln]
            segs.append(cur)
        elif cur is not None:
            cur.append(ln)
    return segs


def fold(specdir, module, cfg, segs, timeout):
    """Run a trace spec over the segments (fresh copy of the spec dir). Returns (TLCResult, nlines)."""
    work = tempfile.mkdtemp(prefix="fold.", dir=os.path.dirname(specdir))
    V.copy_specs(specdir, work)
    n = 0
    with open(os.path.join(work, "trace.ndjson"), "w") as f:
        for s in segs:
            for ln in s:
                f.write(json.dumps(ln) + "\n")
                n += 1
    res = V.tlc(work, module, cfg=cfg, workers=1, timeout=timeout, deadlock=False)
    shutil.rmtree(work, ignore_errors=True)
    return res, n


def seg_of_line(segs, lineno):
    """(segment index, 0-based position in the segment) of the 1-based line number"""
    n = 0
    for i, s in enumerate(segs):
        if lineno <= n + len(s):
            return i, lineno - n - 1
        n += len(s)
    return len(segs) - 1, 0


def grows_clock(op):
    return op.get("t") == "read" or op.get("kind") == "shared"


def classify_causal(seg, att, pair):
    """Name the input class of a Causal violation: the medium of the edge written by the dominated
    writer and the shape of the writer's attempt (classification of TLC's verdict, not a verdict)."""
    opi, tok = pair
    for wi, ln in enumerate(seg):
        if ln.get("e") != "att":
            continue
        for j, op in enumerate(ln["ops"]):
            if op.get("t") == "write" and op.get("ch") and op["ch"][-1] == tok:
                later = any(grows_clock(o) for o in ln["ops"][j + 1:] if o.get("n") != ".pc")
                kind = op.get("kind")
                if kind in ("chan", "tcp"):
                    shape = "send-then-witness" if later else "send-last"
                else:
                    shape = "write-then-witness" if later else "write-last"
                    # seed C18-B: an aborted attempt touched the variable (its clock cell) between the
                    # writer's commit and the rejected reader
                    ri = next((i for i, x in enumerate(seg) if x is att), len(seg))
                    if any(x.get("e") == "att" and x.get("ab") and any(o.get("ck") == op.get("ck") for o in x["ops"])
                           for x in seg[wi + 1:ri]):
                        shape += ":aborted-access-between"
                return kind, shape
    return "unknown", "unknown"


def case_class(seg):
    cid = str(seg[0].get("id", "?"))
    return re.sub(r"[0-9]+$", "", cid) if cid.startswith(("sim", "cex")) else cid


# ----------------------------------------------------------------------------- the check


def run(chk):
    specsrc = os.path.join(V.SPEC, ID)
    work = os.path.join(chk.tmp, "spec")
    V.copy_specs(specsrc, work)
    quick = chk.quick()
    TLC_T = 1500 if quick else 5400

    # ------------------------------------------------------------------ 1. design level + generators (parallel)
    def mcjob(name, cfg, workers, expect=False):
        d = os.path.join(chk.tmp, "mc-" + cfg)
        V.copy_specs(specsrc, d)
        return name, V.tlc(d, "MCVClock", cfg=cfg, workers=workers, timeout=TLC_T, deadlock=False), expect

    def genjob(cfg, num, depth, seed, tag):
        d = os.path.join(chk.tmp, "gen-" + cfg)
        V.copy_specs(specsrc, d)
        res = V.tlc(d, "MCVClock", cfg=cfg, workers=1, timeout=TLC_T, deadlock=False,
                    simulate="num=%d" % num, depth=depth, seed=seed)
        return "generator %s (-simulate num=%d seed=%d)" % (cfg, num, seed), res, "gen:" + tag

    def genxjob(cfg, tag):
        """generator by exhaustive search: every bad final state of the (deliberately broken) model emits a program"""
        d = os.path.join(chk.tmp, "gen-" + cfg)
        V.copy_specs(specsrc, d)
        res = V.tlc(d, "MCVClock", cfg=cfg, workers=1, timeout=TLC_T, deadlock=False)
        return "generator %s (exhaustive, VIEW without the program text)" % cfg, res, "genx:" + tag

    def patjob():
        res = V.tlc(work, "TracePatterns", cfg="TracePatterns.cfg", workers=1, timeout=TLC_T, deadlock=False)
        return "TracePatterns (directed family, exported)", res, False

    jobs = []
    if not chk.replay:
        jobs.append(patjob)
        w = 2 if quick else 4
        jobs += [
            # seed C18-B: every counterexample of the model whose aborts roll a variable's clock back (Fix = "vars-rollback")
            # as a program (sampled by seed in the quick tier); a non-empty result is also the vacuity guard: TLC rejects
            # the broken variant on Causal (the explicit INVARIANT run MCVarsRollback.cfg is in the thorough tier)
            lambda: genxjob("GenBadRollback.cfg", "cexRollback"),
            lambda: mcjob("MCVClock repaired protocol, shared variables, 3 contexts (Causal)", "MCVarsQ.cfg", w),
            lambda: mcjob("MCVClock repaired protocol, channel + local hop + aborts, 2 contexts (Causal)", "MCChanQ.cfg", w),
            lambda: mcjob("MCVClock repaired protocol, TCP mailboxes with send-last sections (Causal)", "MCTcpQ.cfg", w),
            lambda: mcjob("MCVClock pinned protocol (expected: Causal violated on the model = DESIGN 8 #13)", "MCVarsPinned.cfg", w, True),
            lambda: mcjob("MCVClock TCP send followed by a witness (expected: Causal violated on the model; no small repair)", "MCTcpOpen.cfg", w, True),
            # random programs / schedules
            lambda: genjob("Gen.cfg", 120 if quick else 1000, 80, chk.seed, "sim"),
            # TLC's own counterexamples: behaviours on which the PINNED protocol model violates Causal
            lambda: genjob("GenBadVars.cfg", 2500 if quick else 25000, 80, chk.seed, "cexVars"),
            lambda: genjob("GenBadTcp.cfg", 2500 if quick else 25000, 80, chk.seed, "cexTcp"),
            lambda: genjob("GenBadMix.cfg", 2500 if quick else 25000, 80, chk.seed, "cexMix"),
        ]
        if not quick:
            jobs += [
                lambda: mcjob("MCVClock repaired protocol, variable + channel, 3 contexts, 4 attempts with aborts (Causal, VarClocksMonotone)", "MCVarsAbortQ.cfg", 4),
                lambda: mcjob("MCVClock variable clock rolled back by an abort (expected: Causal violated on the model = seed C18-B)", "MCVarsRollback.cfg", 4, True),
                lambda: mcjob("MCVClock repaired, shared variables, 4 attempts with aborts", "MCVarsT.cfg", 4),
                lambda: mcjob("MCVClock repaired, channel + local hop, 4 attempts", "MCChanT.cfg", 4),
                lambda: mcjob("MCVClock repaired, TCP + channel + variable, send-last, 4 attempts with aborts", "MCTcpT.cfg", 4),
                lambda: genjob("GenLong.cfg", 300, 140, chk.seed + 1, "simLong"),
            ]
    sim_cases = []
    design_ok = True
    with concurrent.futures.ThreadPoolExecutor(max_workers=6) as ex:
        for name, res, expect in ex.map(lambda j: j(), jobs):
            if isinstance(expect, str) and expect.startswith(("gen:", "genx:")):
                chk.add_tlc(name, res)
                tag = expect.split(":", 1)[1]
                got = []
                for m in re.finditer(r'^"C18CASE (.*)"$', res.out, re.M):
                    try:
                        c = json.loads(json.loads('"' + m.group(1) + '"'))
                    except ValueError:
                        continue
                    c["id"] = "%s%d" % (tag, len(got) + 1)
                    got.append(c)
                chk.notes.setdefault("generated", {})[tag] = len(got)
                if expect.startswith("genx:"):
                    # every emitted program is a behaviour on which TLC evaluated Causal (ok) to FALSE in the broken model
                    chk.notes.setdefault("expected_model_counterexamples", {})[name] = bool(got)
                    if not got:
                        chk.gaps.append("the deliberately defective model was NOT rejected (no counterexample program): " + name)
                    elif quick and len(got) > 8:
                        got = random.Random(chk.seed).sample(got, 8)
                sim_cases += got
            elif expect:
                chk.tlc_jobs.append(res.summary(name))
                chk.notes.setdefault("expected_model_counterexamples", {})[name] = bool(res.violation)
                if not res.violation:
                    chk.gaps.append("the deliberately defective model was NOT rejected: " + name)
            else:
                chk.add_tlc(name, res)
                design_ok = design_ok and res.ok
    chk.exhaustive = design_ok and not chk.replay

    # ------------------------------------------------------------------ 2. real executions
    drv = V.build_driver("c18drv", chk.bindir)
    tracedir = os.path.join(chk.tmp, "pgotrace")
    lines = []
    nworkers = 6

    def drive(args, tag, timeout=1500):
        out = os.path.join(chk.tmp, "trace-%s.ndjson" % tag)
        env = {"PGO_TRACE_DIR": os.path.join(tracedir, tag)}
        os.makedirs(env["PGO_TRACE_DIR"], exist_ok=True)
        rc, o = V.run([drv, "-out", out, "-tracedir", env["PGO_TRACE_DIR"]] + args, timeout=timeout, env=env)
        if rc != 0:
            raise V.Inconclusive("c18drv %s failed rc=%s: %s" % (tag, rc, o[-2000:]))
        return V.read_jsonl(out)

    def write_cases(name, cases):
        p = os.path.join(chk.tmp, name)
        with open(p, "w") as f:
            for c in cases:
                f.write(json.dumps(c) + "\n")
        return p

    if chk.replay:
        rp = json.load(open(chk.replay))["case"]
        if rp.get("locksvc"):
            lk = rp["locksvc"]
            lines += drive(["-mode", "locksvc", "-reps", str(lk["reps"]), "-clients", str(lk["clients"]),
                            "-seed", str(lk["seed"])], "replay")
        else:
            p = write_cases("replay-cases.ndjson", rp["cases"])
            lines += drive(["-cases", p, "-rec", rp.get("rec", "file"), "-workers", "1"], "replay")
    else:
        directed = V.read_jsonl(os.path.join(work, "cases.ndjson")) if os.path.exists(os.path.join(work, "cases.ndjson")) else []
        if not directed:
            raise V.Inconclusive("TLC did not export the directed pattern family")
        if not sim_cases:
            raise V.Inconclusive("the TLC generator produced no case")
        chk.notes["directed_cases"] = len(directed)
        chk.notes["generated_cases"] = len(sim_cases)
        lines += drive(["-cases", write_cases("directed.ndjson", directed), "-rec", "alt", "-reps", "2" if quick else "6",
                        "-workers", str(nworkers)], "directed")
        lines += drive(["-cases", write_cases("sim.ndjson", sim_cases), "-rec", "alt", "-reps", "1" if quick else "2",
                        "-workers", str(nworkers)], "sim")
        lk = [(2, 3)] if quick else [(2, 8), (3, 6)]
        for clients, reps in lk:
            lines += drive(["-mode", "locksvc", "-reps", str(reps), "-clients", str(clients), "-seed", str(chk.seed)],
                           "locksvc%d" % clients)
        chk.notes["locksvc_runs"] = [{"clients": c, "reps": r, "seed": chk.seed} for c, r in lk]

    segs = split_cases(lines)
    infra = [s for s in segs if any(ln.get("e") == "infra" for ln in s)]
    if infra and not chk.replay:
        # one sequential retry of the pattern cases that met an infrastructure problem (busy port, watchdog)
        again = [s[0]["prog"] for s in infra if s[0].get("prog")]
        segs = [s for s in segs if s not in infra]
        if again:
            retry = split_cases(drive(["-cases", write_cases("retry.ndjson", again), "-rec", "file", "-workers", "1"], "retry"))
            bad = [s for s in retry if any(ln.get("e") == "infra" for ln in s)]
            segs += [s for s in retry if s not in bad]
            infra = bad + [s for s in infra if not s[0].get("prog")]
        if infra:
            chk.inconclusive.append("%d executions met an infrastructure problem: %s" % (
                len(infra), [ln.get("what") for s in infra for ln in s if ln.get("e") == "infra"][:3]))
    for s in segs:
        end = s[-1]
        if end.get("e") == "end" and end.get("diverged"):
            chk.drift.append({"spec": "TracePatterns/MCVClock generator", "case": s[0].get("id"), "text": end["diverged"]})
    chk.notes["executions"] = len(segs)
    chk.notes["attempts_recorded"] = sum(1 for s in segs for ln in s if ln.get("e") == "att")

    # ------------------------------------------------------------------ 3. P-level verdicts (TLC folds Tracing.tla)
    nchunks = max(1, min(len(segs), 3 if quick else 8))
    parts = [segs[i::nchunks] for i in range(nchunks)]

    def judge(part):
        """returns (accepted segments, [(segment, pos, verdict dict)], states, transitions, errors)"""
        res, n = fold(work, "Tracing", "Tracing.cfg", part, TLC_T)
        st, tr = res.distinct, res.generated
        if res.timed_out or res.error:
            return 0, [], st, tr, [res.error or "timeout"]
        if not res.violation and res.depth >= n + 1:
            return len(part), [], st, tr, []
        # some line is rejected: diagnosis run, TLC prints its verdict for every failing line
        rep, n = fold(work, "Tracing", "TracingReport.cfg", part, TLC_T)
        st += rep.distinct
        tr += rep.generated
        if rep.timed_out or rep.error or rep.depth < n + 1:
            return 0, [], st, tr, [rep.error or ("diagnosis run stopped at depth %d of %d" % (rep.depth, n + 1))]
        fails = []
        for m in re.finditer(r'^"C18V (.*)"$', rep.out, re.M):
            v = json.loads(json.loads('"' + m.group(1) + '"'))
            si, pos = seg_of_line(part, v["l"])
            fails.append((part[si], pos, v))
        if not fails:
            return 0, [], st, tr, ["Tracing.cfg rejected the trace (%s) but the diagnosis run found no failing line" % res.violation]
        badsegs = {id(f[0]) for f in fails}
        return len([s for s in part if id(s) not in badsegs]), fails, st, tr, []

    failures = []
    with concurrent.futures.ThreadPoolExecutor(max_workers=nchunks) as ex:
        for acc, fails, st, tr, errs in ex.map(judge, parts):
            chk.traces += acc
            chk.states += st
            chk.transitions += tr
            failures += fails
            for e in errs:
                chk.inconclusive.append("Tracing: " + e)

    perkey = {}

    def report(key, what, replay):
        # at most 3 replay files per input class; the rest is counted in the evidence
        perkey[key] = perkey.get(key, 0) + 1
        if perkey[key] <= 3:
            chk.violation(key, what, replay)

    for seg, pos, v in failures:
        att = seg[pos]
        names = [n for k, n in INVS if not v.get(k, True)]
        prog = seg[0].get("prog")
        replay = {"cases": [prog] if prog else [], "rec": seg[0].get("rec"), "line_in_case": pos, "verdict": v,
                  "attempt": att, "case_id": seg[0].get("id")}
        if str(seg[0].get("id", "")).startswith("locksvc"):
            replay["locksvc"] = {"clients": seg[0]["n"] - 1, "reps": seg[0].get("seq", 1), "seed": chk.seed}
        for name in names:
            if name == "Causal":
                keys = {}
                for pair in v.get("badCausal", []):
                    kind, shape = classify_causal(seg, att, pair)
                    keys.setdefault("C18:Causal:edge=%s:writer=%s" % (kind, shape), pair)
                for key, pair in keys.items():
                    report(key, "case %s, attempt %s of context %s: the reader's logged clock does not dominate the clock "
                                  "logged for the attempt that wrote token %s (operation %s of the attempt); writer medium/shape: %s" % (
                                      seg[0].get("id"), att.get("k"), att.get("c"), pair[1], pair[0], key.split(":", 2)[2]),
                                  dict(replay, failing=key))
            else:
                key = "C18:%s:case=%s" % (name, case_class(seg))
                what = {"OncePerAttempt": "the attempt produced %s events (exactly one expected), or events appeared outside attempts" % (
                            len(att.get("logs", [])) if att.get("e") == "att" else att.get("extra")),
                        "ExactElements": "logged archetype/self/outcome/elements differ from what the attempt did (first difference at element %s)" % v.get("badEl"),
                        "OldValueHints": "a previous-value hint is missing or is not the previous value of the variable",
                        "ReplayLocals": "a logged read of archetype-local state is not what replaying the committed writes gives",
                        "OwnClock": "the archetype's own clock component is not the number of the attempt"}[name]
                report(key, "case %s, attempt %s of context %s: %s" % (seg[0].get("id"), att.get("k"), att.get("c"), what), replay)
    chk.notes["rejected_attempts_by_input_class"] = perkey

    # ------------------------------------------------------------------ 4. M-level conformance (drift only)
    def conform(args):
        part, cfg = args
        res, n = fold(work, "VClockTrace", cfg, part, TLC_T)
        okay = (not res.violation) and (not res.error) and (not res.timed_out) and res.depth >= n + 1
        return cfg, okay, res, part

    confs = {"VClockTraceNone.cfg": [], "VClockTraceVars.cfg": []}
    with concurrent.futures.ThreadPoolExecutor(max_workers=min(8, 2 * nchunks)) as ex:
        for cfg, okay, res, part in ex.map(conform, [(p, c) for p in parts for c in confs]):
            chk.states += res.distinct
            chk.transitions += res.generated
            m = re.findall(r"^/\\ l = (\d+)", res.out, re.M)
            confs[cfg].append((okay, res, part, int(m[-1]) - 1 if m else 0))
    variant = [c for c, rs in confs.items() if all(r[0] for r in rs)]
    chk.notes["m_spec_variant_matching_the_tree"] = variant
    if not variant:
        best = min(confs, key=lambda c: sum(1 for r in confs[c] if not r[0]))
        for okay, res, part, lineno in confs[best]:
            if not okay:
                si, pos = seg_of_line(part, max(lineno, 1))
                chk.drift.append({"spec": "VClock.tla (%s)" % best, "case": part[si][0].get("id"), "line_in_case": pos,
                                  "text": res.violation or res.error or "not accepted"})

    # ------------------------------------------------------------------ evidence
    for s in [x for x in segs if len(x) > 2][:2] + [x for x in segs if str(x[0].get("id", "")).startswith(("sim", "cex", "locksvc"))][-2:]:
        att = next((ln for ln in s if ln.get("e") == "att" and len(ln.get("ops", [])) > 2), None)
        if att:
            chk.sample({"case": s[0].get("id"), "recorder": s[0].get("rec"), "attempt": {"c": att["c"], "k": att["k"], "ab": att["ab"]},
                        "ground_truth": [[o["t"], o["n"], o["ix"], o["v"]] for o in att["ops"]],
                        "logged": att["logs"][0] if att.get("logs") else None})
    chk.assumptions += [
        "TLC/SANY/Json module; the scheduler gate runs one attempt at a time, so the order of the attempt lines is the interleaving",
        "ground truth = the iface.Read/Write calls made by the driver's own section bodies (for locksvc: decorators around the real resources; locals of generated code have no independent ground truth)",
        "values are tuples of unique tokens, so a value names every attempt that wrote or relayed it; for locksvc a message is identified by (destination, value, FIFO order)",
        "the Done label is not a critical-section attempt (the runtime logs nothing for it)",
    ]
    chk.gaps += ["relaxed mailboxes, CRDT/2PC/persistent resources are not driven (property lists mailboxes, channels, shared variables; the relaxed mailbox stamps values like the TCP mailbox)",
                 "generated systems other than locksvc are not run with tracing (dqueue/raftkvs need hook H1)",
                 "JSONToTLA.scala (the consumer) is not executed; only the log format it reads is checked"]
    return chk.finish(rule="directed pattern family (TracePatterns.tla, TLC-exported) + random programs/schedules generated by TLC "
                           "(-simulate of MCVClock.tla, seed = VERIF_SEED) run on the real runtime with tracing enabled under a scheduler "
                           "gate, with both recorders (PGO_TRACE_DIR files / SetTraceRecorder), + the generated locksvc over TCP mailboxes; "
                           "every attempt (ground truth + raw log lines) folded by TLC into Tracing.tla (6 invariants) and "
                           "VClockTrace.tla (clock conformance to the M-spec)")
