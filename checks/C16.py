"""C16 -- the other generated systems keep their specs' safety invariants.

Per system (dqueue, loadbalancer, proxy, shcounter, gcounter, shopcart, nestedcrdtimpl; replicatedkv is not bound):

 spec      the repository's own .tla (regenerated with pcal where the table says so) + an observer module
           spec/C16/<Sys>Obs.tla that EXTENDS it and states the clauses of the property the shipped spec does
           not name, with history variables that are a function of the step (HInit / HStep / HNext == Next /\\ HStep).
 design    TLC exhaustive on the observer over the shipped spec (HInit/HNext, the spec's invariants + the observer's,
           a state constraint on the history where the system never terminates). Failing `assert`s of the
           specification surface here as TLC errors. Witness runs (expected violations) show that the
           antecedents of implications are reachable (proxy).
 binding   the generated archetypes of systems/<sys>/<sys>.go run over spec-state env resources
           (harness/internal/mpexec + sysdefs), per instance of the plan: (a) the state graph reached with the real
           archetype code from the initial state (fresh context per step, every choice resolution; complete on the
           small instances, a BFS prefix where the graph is infinite), turned into edge-covering walks (cover_walks);
           (b) seeded executions under the real MPCalContext.Run behind the scheduler gate. The recorded real-code
           states are taken as they are (P-level mode) and ONE TLC run per instance evaluates every invariant in every
           one of them, the history variables following HStep (delta_trace_module: step records carry only what
           changed, values in record/tuple syntax; the first state in both forms, compared by TLC).
           A Go-side assertion failure / panic is a violation (go-error).
 verdicts  a real-code state that violates an invariant -> VIOLATION (or KNOWN-FINDING); a design-level
           counterexample alone is never a verdict: the invariant is dropped from that design run, and unless the
           generated code reproduces the violation the run is INCONCLUSIVE.

The plans are the "c16" section of /verif/systems/<name>.json: per tier {"design": [{n, args, constraint, witness, workers}],
"go": [{n, args, consts_override, bfs: {max_states, max_walk_states, walk_len}, random: {runs, steps, policy}, witness, chunks}]}.
--replay <file> re-runs the system, tier and seed recorded in a replay file.
VERIF_SYSTEMS=a,b restricts the run; VERIF_PAR sets the number of parallel jobs (default 8).
"""
import concurrent.futures
import os
import re
import time

import sysrun as S
import tracegen as T
import vcommon as V

SYSTEMS = ["nestedcrdtimpl", "proxy", "loadbalancer", "shopcart", "dqueue", "gcounter", "shcounter", "replicatedkv"]

# property-level observers: spec/C16/<module>.tla EXTENDS the system's spec.
#   invariants  state predicates over (vars, history) stated by the observer
#   reset       how the history variables restart when the trace module concatenates executions
#   labels      labels that must have been executed by the generated code for the invariants to say anything
#   witnesses   predicates expected to be VIOLATED (reachability of antecedents): design level, and on the Go executions
OBS = {
    "dqueue": {
        "module": "DqueueObs",
        "invariants": ["BufferBound", "HandedInProductionOrder", "HandedToRequester", "TakenOnceInOrder", "ProcessedAsTaken"],
        "reset": "/\\ zreqs' = <<>> /\\ zhanded' = <<>> /\\ ztaken' = <<>> /\\ zproc' = <<>> /\\ zprod' = 0 /\\ zcons' = 0",
        "labels": ["c1", "c2", "p1", "p2"],
    },
    "loadbalancer": {
        "module": "LoadBalancerObs",
        "invariants": ["ForwardedOnce", "AnsweredByItsServer", "AnsweredAtMostOnce"],
        "reset": "/\\ zreqs' = <<>> /\\ zfwds' = <<>> /\\ zans' = <<>>",
        "labels": ["clientRequest", "rcvMsg", "sendServer", "rcvReq", "sendPage", "clientReceive"],
    },
    "proxy": {
        "module": "ProxyObs",
        "invariants": ["FailOnlyWhenAllFailed", "PerfectDetector"],
        "reset": "/\\ zfailok' = TRUE /\\ zfails' = 0 /\\ zoks' = 0",
        "labels": ["proxyLoop", "serversLoop", "proxyRcvMsg", "sendMsgToClient", "serverSendMsg", "failLabel", "clientRcvResp"],
        "witnesses": ["ZNoFailReported", "ZNoOkReported", "ZNoFailPending"],
    },
    "shcounter": {
        "module": "ShcounterObs",
        "invariants": ["FinalValue", "DoneOnlyAtFinalValue", "NeverExceeds", "NeverDecreases", "CountsUpdates"],
        "reset": "/\\ zprev' = 0",
        "labels": ["update", "wait"],
    },
    "gcounter": {
        "module": "GcounterObs",
        "invariants": ["EqualKnowledgeEqualReads", "CountersNeverDecrease", "NoInventedIncrements"],
        "reset": "/\\ zprev' = localcntrs'",
        "labels": ["update", "wait", "l1"],
    },
    "shopcart": {
        "module": "ShopcartObs",
        "invariants": ["EqualKnowledgeEqualReads", "CountersNeverDecrease"],
        "reset": "/\\ zprev' = crdt'",
        "labels": ["add", "waitAdd", "l1"],
    },
    "nestedcrdtimpl": {
        "module": "NestedCRDTObs",
        "invariants": ["MonotonicStateInv", "ViewNeverDecreases", "StateIsKnowledge", "EqualKnowledgeEqualReads", "NoInventedIncrements",
                       "BufferBound", "ViewBoundedByWrites"],
        "reset": "/\\ zprev' = state' /\\ zpend' = [zr \\in RESOURCE_IDS |-> 0] /\\ zown' = [zr \\in RESOURCE_IDS |-> 0] /\\ zknow' = [zr \\in RESOURCE_IDS |-> {}]",
        "labels": ["receiveReq", "writeReq", "commitReq", "commitAck"],
    },
}

def cover_walks(g, maxlen=300, budget=12000):
    """Walks from the initial state of the explored graph that together cover its edges (as many as fit in
    `budget` states). A walk goes on through already covered edges to the nearest uncovered one (BFS), so
    cyclic graphs are covered by few long walks instead of one restart per edge. Returns (walks as lists of
    state texts, number of edges covered, number of edges)."""
    out = {}
    for (u, v, _) in g["edges"]:
        out.setdefault(u, []).append(v)
    uncovered = {(u, v) for (u, v, _) in g["edges"]}
    nedges = len(uncovered)

    def nearest(src):
        # shortest path (list of nodes after src) from src to the tail of an uncovered edge, then through it
        prev, queue, qi = {src: None}, [src], 0
        while qi < len(queue):
            u = queue[qi]; qi += 1
            for v in out.get(u, []):
                if (u, v) in uncovered:
                    path = [v]
                    while u != src:
                        path.append(u); u = prev[u]
                    return list(reversed(path))
                if v not in prev:
                    prev[v] = u
                    queue.append(v)
        return None

    walks, used = [], 0
    while uncovered and used < budget:
        path = [0]
        while len(path) < maxlen:
            ext = nearest(path[-1])
            if ext is None or (len(path) + len(ext) > maxlen and len(path) > 1):
                break
            for a, b in zip([path[-1]] + ext, ext):
                uncovered.discard((a, b))
            path += ext
        if len(path) == 1:
            break      # nothing uncovered is reachable from the initial state any more
        walks.append([g["states"][i] for i in path])
        used += len(path)
    return walks, nedges - len(uncovered), nedges


def split_state(text):
    """Fields of a state record `[v1 |-> e1, v2 |-> e2, ...]` as dumped by the executor: {name: expression text}."""
    t = text.strip()
    if not (t.startswith("[") and t.endswith("]")):
        raise V.Inconclusive("unexpected state record: " + t[:80])
    t = t[1:-1]
    parts, depth, i, start, instr = [], 0, 0, 0, False
    while i < len(t):
        c = t[i]
        if instr:
            if c == "\\":
                i += 1
            elif c == '"':
                instr = False
        elif c == '"':
            instr = True
        elif t.startswith("<<", i):
            depth += 1; i += 1
        elif t.startswith(">>", i):
            depth -= 1; i += 1
        elif c in "([{":
            depth += 1
        elif c in ")]}":
            depth -= 1
        elif c == "," and depth == 0:
            parts.append(t[start:i]); start = i + 1
        i += 1
    parts.append(t[start:])
    out = {}
    for p_ in parts:
        name, _, val = p_.partition("|->")
        out[name.strip()] = val.strip()
    return out


_TOK = re.compile(r'\s*(<<|>>|:>|@@|\|->|\\in|[()\[\]{},]|"(?:[^"\\]|\\.)*"|-?\d+|[A-Za-z_][A-Za-z0-9_]*)')
_IDENT = re.compile(r'^[A-Za-z_][A-Za-z0-9_]*$')


class _Unparsed(Exception):
    pass


def parse_value(text):
    """Syntax tree of a value printed by the executor, or None when it contains anything unknown. Background: The executor prints functions as chains `(k1 :> v1) @@ (k2 :> v2) @@ ...`; SANY needs several times longer for
    those than for the same value written as a record / tuple / explicit function (1 500 shopcart states: 71 s of a
    94 s TLC run were parsing). This rewrites a printed value into the cheaper syntax -- records for string keys,
    tuples for keys 1..n, ZFn(<<keys>>, <<values>>) otherwise -- and returns the text unchanged when it meets anything
    it does not know. (The first state of every trace module is embedded in both forms and compared by TLC.)"""
    toks, pos = [], 0
    while pos < len(text):
        m = _TOK.match(text, pos)
        if not m:
            if text[pos:].strip() == "":
                break
            return None
        toks.append(m.group(1)); pos = m.end()
    i = [0]

    def peek():
        return toks[i[0]] if i[0] < len(toks) else None

    def take(t=None):
        x = peek()
        if x is None or (t is not None and x != t):
            raise _Unparsed()
        i[0] += 1
        return x

    def plist(close):
        out = []
        if peek() == close:
            take(); return out
        while True:
            out.append(expr())
            if peek() == ",":
                take(); continue
            take(close); return out

    def unit():
        t = take()
        if t == "(":
            e = expr(); take(")"); return e
        if t == "<<":
            return ("tup", plist(">>"))
        if t == "{":
            return ("set", plist("}"))
        if t == "[":
            if i[0] + 1 < len(toks) and toks[i[0] + 1] == "\\in":      # [x \in {} |-> x]: the empty function
                x = take(); take("\\in"); take("{"); take("}"); take("|->"); take(x); take("]")
                return ("tup", [])
            fs = []
            while True:
                k = take(); take("|->"); fs.append((k, expr()))
                if peek() == ",":
                    take(); continue
                take("]"); return ("rec", fs)
        if t in (")", ">>", "}", "]", ",", ":>", "@@", "|->", "\\in"):
            raise _Unparsed()
        return ("atom", t)

    def expr():
        pairs, single = [], None
        while True:
            u = unit()
            if peek() == ":>":
                take(); pairs.append((u, unit()))
            elif u[0] == "fn":
                pairs += u[1]
            elif single is None and not pairs and peek() != "@@":
                single = u
            else:
                raise _Unparsed()
            if peek() == "@@":
                take(); continue
            break
        return single if single is not None else ("fn", pairs)

    try:
        e = expr()
        return e if i[0] == len(toks) else None
    except (_Unparsed, IndexError):
        return None


def _tup(xs):
    body = ", ".join(xs)
    return "<<" + (" " if body.startswith("<") else "") + body + (" " if body.endswith(">") else "") + ">>"

def show_value(e):
    """TLA+ text of a tree of parse_value: records for string keys, tuples for keys 1..n, ZFn(<<keys>>, <<values>>) otherwise."""
    k = e[0]
    if k == "atom":
        return e[1]
    if k == "tup":
        return _tup([show_value(x) for x in e[1]])
    if k == "set":
        return "{" + ", ".join(show_value(x) for x in e[1]) + "}"
    if k == "rec":
        return "[" + ", ".join("%s |-> %s" % (f, show_value(v)) for f, v in e[1]) + "]"
    keys = [x for x, _ in e[1]]
    if keys and all(x[0] == "atom" and x[1].startswith('"') and _IDENT.match(x[1][1:-1]) for x in keys) and len({x[1] for x in keys}) == len(keys):
        return "[" + ", ".join("%s |-> %s" % (x[1][1:-1], show_value(v)) for x, v in e[1]) + "]"
    if keys and all(x[0] == "atom" and x[1].isdigit() for x in keys) and sorted(int(x[1]) for x in keys) == list(range(1, len(keys) + 1)):
        return _tup([show_value(v) for _, v in sorted(e[1], key=lambda kv: int(kv[0][1]))])
    return "ZFn(" + _tup([show_value(x) for x in keys]) + ", " + _tup([show_value(v) for _, v in e[1]]) + ")"



def compact_value(text):
    """The value in the cheaper syntax; the text unchanged when the parser meets anything it does not know.
    (The first state of every trace module is embedded in both forms and compared by TLC.)"""
    e = parse_value(text)
    return text if e is None else show_value(e)


def delta_trace_module(module, variables, runs, reset_extra):
    """<module>Trace for P-level judgement of recorded executions (same shape as tracegen's conform=False module:
    the recorded states are taken as they are, the history variables follow HStep, executions are concatenated
    with a reset), but every step record carries only the variables whose printed value changed -- SANY's time on
    the embedded data dominates these runs and most steps change two or three of ten to twenty variables."""
    recs = []
    for r in runs:
        prev = None
        for st in r:
            f = split_state(st)
            if sorted(f) != sorted(variables):
                raise V.Inconclusive("state record does not carry the spec's variables: %s vs %s" % (sorted(f), sorted(variables)))
            if prev is None:
                full = "[" + ", ".join("%s |-> %s" % (v, compact_value(f[v])) for v in variables) + "]"
                # the very first state also as the executor printed it: TLC compares the two forms (TraceInit)
                recs.append('[k |-> "i", st |-> %s%s]' % (full, (", orig |-> " + st) if not recs else ""))
            else:
                fields = []
                for v in variables:
                    if f[v] == prev[v]:
                        continue
                    a, b = parse_value(prev[v]), parse_value(f[v])
                    if a and b and a[0] == "fn" and b[0] == "fn" and len(b[1]) > 1 and [show_value(k_) for k_, _ in a[1]] == [show_value(k_) for k_, _ in b[1]]:
                        # a function with the same domain: only the entries that changed (ZMatchDeltaP: zp_v @@ v)
                        chg = [(k_, y) for (k_, x), (_, y) in zip(a[1], b[1]) if show_value(x) != show_value(y)]
                        fields.append("zp_%s |-> ZFn(%s, %s)" % (v, _tup([show_value(k_) for k_, _ in chg]), _tup([show_value(y) for _, y in chg])))
                    else:
                        fields.append("%s |-> %s" % (v, f[v] if b is None else show_value(b)))
                recs.append('[k |-> "s", st |-> %s]' % ("[" + ", ".join(fields) + "]" if fields else "<<>>"))
            prev = f
    match = " /\\ ".join("%s = zst.%s" % (v, v) for v in variables)
    matchfull = " /\\ ".join("%s' = zst.%s" % (v, v) for v in variables)
    matchd = " /\\ ".join("%s' = (IF \"%s\" \\in DOMAIN zst THEN zst.%s ELSE IF \"zp_%s\" \\in DOMAIN zst THEN (zst.zp_%s @@ %s) ELSE %s)" % (v, v, v, v, v, v, v) for v in variables)
    return """---- MODULE %(m)sTrace ----
EXTENDS %(m)s
VARIABLE l
ZFn(zks, zvs) == [zx \\in {zks[zi] : zi \\in 1..Len(zks)} |-> zvs[CHOOSE zi \\in 1..Len(zks) : zks[zi] = zx]]
ZTrace == <<
%(data)s
>>
ZMatch(zst) == %(match)s
ZMatchFullP(zst) == %(matchfull)s
ZMatchDeltaP(zst) == %(matchd)s
ZKind(zkind) == l < Len(ZTrace) /\\ ZTrace[l + 1].k = zkind /\\ l' = l + 1
TraceInit == l = 1 /\\ HInit /\\ ZMatch(ZTrace[1].st) /\\ ZTrace[1].st = ZTrace[1].orig
TraceStep == ZKind("s") /\\ ZMatchDeltaP(ZTrace[l + 1].st) /\\ HStep
TraceReset == ZKind("i") /\\ ZMatchFullP(ZTrace[l + 1].st) %(rx)s /\\ (HInit)'
TraceNext == TraceStep \\/ TraceReset
====
""" % {"m": module, "data": ",\n".join(recs), "match": match, "matchfull": matchfull, "matchd": matchd, "rx": reset_extra}


def validate_delta(specdir, module, variables, runs, constants, invariants, reset_extra, chunks=1, timeout=1500):
    """One TLC run per chunk of runs over delta_trace_module. Returns what tracegen.validate_runs returns:
    dict(accepted, rejected=[dict(run_index, kind 'invariant'|'stuck', state_index, text)], states, transitions, errors).
    A chunk stops at its first rejected run (the caller decides how to go on)."""
    import shutil, tempfile
    out = {"accepted": 0, "rejected": [], "states": 0, "transitions": 0, "errors": []}
    idx = [i for i, r in enumerate(runs) if r]
    if not idx:
        return out
    cfgtext = T.make_cfg(constants, invariants, [])
    chunks = max(1, min(chunks, len(idx)))
    parts = [idx[i::chunks] for i in range(chunks)]

    def work(part):
        rr = [runs[i] for i in part]
        total = sum(len(r) for r in rr)
        w = tempfile.mkdtemp(prefix="tv.", dir=os.path.dirname(specdir))
        try:
            V.copy_specs(specdir, w, names=[f for f in os.listdir(specdir) if f.endswith(".tla")])
            open(os.path.join(w, module + "Trace.tla"), "w").write(delta_trace_module(module, variables, rr, reset_extra))
            open(os.path.join(w, module + "Trace.cfg"), "w").write(cfgtext)
            res = V.tlc(w, module + "Trace", cfg=module + "Trace.cfg", workers=1, timeout=timeout, deadlock=False)
        finally:
            shutil.rmtree(w, ignore_errors=True)
        if res.timed_out or res.error:
            return 0, None, res, [(res.error or "timeout") + " :: " + res.out[-1500:]]
        if res.violation:
            m = re.findall(r"^/\\ l = (\d+)", res.out, re.M)
            pos, kind = (int(m[-1]) if m else 1), "invariant"
        elif res.depth < total:
            pos, kind = res.depth + 1, "stuck"
        else:
            return len(part), None, res, []
        n, hit = 0, len(part) - 1
        for j, r in enumerate(rr):
            if pos <= n + len(r):
                hit = j
                break
            n += len(r)
        return hit, {"run_index": part[hit], "kind": kind, "state_index": pos - n,
                     "text": res.violation or "recorded state cannot be taken (not an initial state of the spec?)"}, res, []

    with concurrent.futures.ThreadPoolExecutor(max_workers=chunks) as ex:
        for acc, rej, res, errs in ex.map(work, parts):
            out["accepted"] += acc
            if rej:
                out["rejected"].append(rej)
            out["states"] += res.distinct
            out["transitions"] += res.generated
            out["errors"] += errs
    return out


INV_RE = re.compile(r"(?:Invariant|Action property) (\w+) is violated")


def _cfg(cs, init, nxt, invs, props=(), constraint=None):
    body = "CONSTANTS\n" + "".join("  %s = %s\n" % kv for kv in cs.items())
    body += "INIT %s\nNEXT %s\nCHECK_DEADLOCK FALSE\n" % (init, nxt)
    body += "".join("INVARIANT %s\n" % i for i in invs) + "".join("PROPERTY %s\n" % p for p in props)
    if constraint:
        body += "CONSTRAINT %s\n" % constraint
    return body


class System:
    """One generated system: its prepared spec directory and the jobs (design / graph / run) that are run side by side."""

    def __init__(self, chk, name, table, drv):
        self.chk, self.name, self.drv = chk, name, drv
        t = dict(table)
        # ProxyOK holds with the perfect failure detector only: the PlusCal is rewritten to the PerfectFD read before pcal
        t["spec_rewrites"] = list(t.get("spec_rewrites", [])) + list(t.get("invariant_spec_rewrites", []))
        self.table = t
        self.obs = OBS[name]
        self.work = os.path.join(chk.tmp, "c16-" + name)
        self.text = S.prepare_spec(chk, t, self.work)
        V.copy_specs(os.path.join(V.SPEC, "C16"), self.work, names=[self.obs["module"] + ".tla"])
        self.variables = T.extract_vars(self.text)
        self.module = self.obs["module"]
        self.spec_invs = list(t.get("invariants", []))
        self.invs = self.spec_invs + list(self.obs["invariants"])
        self.props = list(t.get("properties", []))   # action properties of the spec: design level only (the observer restates them over zprev)
        self.plan = t.get("c16", {}).get(chk.tier, {})
        self.inv_args = t.get("invariant_args", "")
        self.design_cex = {}      # invariant -> TLC text (model-level counterexamples)
        self.reproduced = set()   # invariants violated by a real-code state
        self.labels = {}          # label -> committed steps of the generated code
        self.stats = {"design": [], "go": [], "witness": []}

    def consts(self, cfg):
        d = S._args_dict(cfg.get("args", ""))
        d.update(S._args_dict(self.inv_args))
        args = ",".join("%s=%s" % kv for kv in d.items())
        return args, S.subst_consts(self.table, cfg["n"], args, cfg.get("consts_override"))

    @staticmethod
    def chunks(cfg, nstates):
        """TLC processes per validation: one per ~2500 recorded states (JVM start-up dominates small jobs), at most cfg["chunks"]."""
        return max(1, min(cfg.get("chunks", 2), 1 + nstates // 2500))

    # ---- design level
    def design(self, chk, i, cfg):
        args, cs = self.consts(cfg)
        invs = list(self.invs)
        what = "%s design n=%d %s" % (self.name, cfg["n"], args)
        for attempt in range(4):
            cfgname = "c16_design_%d_%d.cfg" % (i, attempt)
            open(os.path.join(self.work, cfgname), "w").write(_cfg(cs, "HInit", "HNext", invs, self.props, cfg.get("constraint")))
            r = V.tlc(self.work, self.module, cfg=cfgname, workers=cfg.get("workers", 3), timeout=cfg.get("timeout", 1500), deadlock=False)
            m = INV_RE.search(r.violation or "")
            if m and m.group(1) in invs and not r.timed_out and not r.error:
                # a model-level counterexample is not a verdict: note it, go on without that invariant; the Go must reproduce it
                chk.add_tlc(what + " [counterexample to %s]" % m.group(1), r, expect_violation=True)
                self.design_cex[m.group(1)] = "%s: %s" % (what, r.violation)
                invs.remove(m.group(1))
                continue
            chk.add_tlc(what + " exhaustive %s" % (invs + self.props), r)
            self.stats["design"].append({"n": cfg["n"], "args": args, "constraint": cfg.get("constraint"), "distinct": r.distinct, "depth": r.depth,
                                         "ok": r.ok, "invariants": len(invs)})
            break
        # witnesses: each predicate must be violated somewhere (the antecedents are reachable in the design)
        def witness(w):
            cfgname = "c16_witness_%d_%s.cfg" % (i, w)
            open(os.path.join(self.work, cfgname), "w").write(_cfg(cs, "HInit", "HNext", [w], (), cfg.get("constraint")))
            return w, V.tlc(self.work, self.module, cfg=cfgname, workers=1, timeout=900, deadlock=False)

        ws = self.obs.get("witnesses", []) if cfg.get("witness") else []
        with concurrent.futures.ThreadPoolExecutor(max_workers=max(1, len(ws))) as ex:
            results = list(ex.map(witness, ws))
        for w, r in results:
            hit = bool(r.violation and w in r.violation)
            chk.add_tlc("%s witness %s (expected to be violated)" % (what, w), r, expect_violation=True)
            self.stats["witness"].append({"level": "design", "n": cfg["n"], "witness": w, "reached": hit})
            if not hit and not r.timed_out and not r.error:
                chk.inconclusive.append("%s: witness %s is not reachable in the design-level run: the invariant it guards would be vacuous" % (what, w))

    # ---- P-level judgement of recorded real-code states
    def judge(self, chk, runs, metas, cs, what, chunks):
        invs = list(self.invs)
        left = list(range(len(runs)))
        total = {"accepted": 0, "passes": 0}
        while left and total["passes"] < 6:
            total["passes"] += 1
            res = validate_delta(self.work, self.module, self.variables, [runs[i] for i in left], cs, invs, self.obs["reset"], chunks=chunks, timeout=2400)
            chk.states += res["states"]; chk.transitions += res["transitions"]
            if not res["rejected"]:
                for e in res["errors"]:
                    chk.inconclusive.append("%s %s: %s" % (self.name, what, e[-600:]))
                total["accepted"] = res["accepted"]
                break
            dropped, removed = set(), set()
            for rj in res["rejected"]:
                ri = left[rj["run_index"]]
                if rj["kind"] == "stuck":
                    chk.drift.append({"system": self.name, "what": what, "state_index": rj["state_index"], "text": rj["text"]})
                    dropped.add(ri)
                    continue
                m = INV_RE.search(rj["text"])
                inv = m.group(1) if m else "property"
                if inv in removed:
                    continue             # the same invariant rejected in another chunk of this pass: already reported
                run = runs[ri]
                st = run[rj["state_index"] - 1] if 0 < rj["state_index"] <= len(run) else None
                prev = run[rj["state_index"] - 2] if 1 < rj["state_index"] <= len(run) else None
                self.reproduced.add(inv)
                kind = "graph" if (metas and metas[ri].get("kind")) else "run"
                chk.violation("C16:%s:%s:%s" % (self.name, inv, kind),
                              "%s (%s): %s in a state reached by the generated code (state %d of the execution)" % (self.name, what, rj["text"], rj["state_index"]),
                              {"system": self.name, "what": what, "tlc": rj["text"], "state_index": rj["state_index"], "state": st, "previous_state": prev,
                               "constants": cs, "meta": metas[ri] if metas else None})
                if inv in invs:
                    invs.remove(inv)     # reported once; the other invariants are still evaluated on every execution
                    removed.add(inv)
                else:
                    dropped.add(ri)
            left = [i for i in left if i not in dropped]
        chk.traces += total["accepted"]
        return total

    def count_labels(self, lines):
        for l in lines:
            if l.get("label") and l.get("e") in ("step", "g-edge"):
                self.labels[l["label"]] = self.labels.get(l["label"], 0) + 1

    def witness_go(self, chk, runs, cs, what):
        """Non-vacuity on the real-code side: each witness predicate must be violated by some recorded execution."""
        ws = self.obs.get("witnesses", [])
        tot, sub = 0, []
        for r in runs:          # reachability needs some executions only: the first ones, up to ~700 states
            if sub and tot + len(r) > 700:
                break
            sub.append(r); tot += len(r)
        runs = sub
        with concurrent.futures.ThreadPoolExecutor(max_workers=max(1, len(ws))) as ex:
            results = list(ex.map(lambda w: validate_delta(self.work, self.module, self.variables, runs, cs, [w], self.obs["reset"], chunks=1, timeout=1500), ws))
        for w, res in zip(ws, results):
            chk.states += res["states"]; chk.transitions += res["transitions"]
            hit = any(w in rj["text"] for rj in res["rejected"])
            self.stats["witness"].append({"level": "generated code, " + what, "witness": w, "reached": hit})
            if not hit:
                chk.gaps.append("%s %s: no recorded execution reaches %s (the implication it guards was not exercised there)" % (self.name, what, w))

    # ---- the generated code on one instance: (a) its state graph, (b) executions under Run; one TLC judgement for both
    def go(self, chk, i, cfg):
        args, cs = self.consts(cfg)
        n = cfg["n"]
        what = "n=%d %s" % (n, args)
        runs, metas, st = [], [], {"n": n, "args": args}
        b = cfg.get("bfs")
        if b is not None:
            out = S.drive(chk, self.drv, self.name, n, "bfs", 0, b.get("max_states", 20000), args=args, tag="-c16g%d" % i)
            g = T.load_graph(out)
            if not g["summary"]:
                raise V.Inconclusive("sysdrv bfs %s wrote no summary" % self.name)
            self.count_labels([e[2] for e in g["edges"]])
            for e in g["errors"]:
                chk.violation("C16:%s:go-error:%s" % (self.name, e.get("label")),
                              "%s %s: generated code failed (assertion / panic) from a reachable state at label %s: %s" % (self.name, what, e.get("label"), e.get("msg")),
                              dict(e, system=self.name, n=n, args=args, from_state=g["states"].get(e.get("from"))))
            walks, covered, nedges = cover_walks(g, b.get("walk_len", 300), b.get("max_walk_states", 4000))
            runs += walks
            metas += [{"kind": "walk of the state graph explored with the generated code"}] * len(walks)
            st["graph"] = {"go_states": g["summary"]["states"], "go_edges": nedges, "complete": g["summary"].get("complete"), "walks": len(walks),
                           "edges_covered": covered, "walk_states": sum(len(w) for w in walks)}
            if walks:
                chk.sample({"system": self.name, "kind": "graph walk", "n": n, "args": args, "first_states": walks[-1][:2]})
        r = cfg.get("random")
        if r is not None:
            out = S.drive(chk, self.drv, self.name, n, r.get("policy", "random"), r["runs"], r["steps"], args=args, tag="-c16r%d" % i)
            rs = T.load_steps(out)
            for x in rs:
                self.count_labels(x["lines"])
                for e in x["errors"]:
                    chk.violation("C16:%s:go-error:%s" % (self.name, e.get("label")),
                                  "%s %s: generated code failed during an execution at label %s: %s" % (self.name, what, e.get("label"), e.get("msg")),
                                  {"system": self.name, "n": n, "args": args, "meta": x["meta"], "error": e, "schedule": S.schedule_of(x, 400)})
            runs += [x["states"] for x in rs]
            metas += [dict(x["meta"], schedule=S.schedule_of(x, 80)) for x in rs]
            st["runs"] = {"runs": len(rs), "policy": r.get("policy", "random"), "states": sum(len(x["states"]) for x in rs)}
            if rs:
                chk.sample({"system": self.name, "kind": "execution under Run", "n": n, "args": args, "seed": rs[0]["meta"].get("seed"),
                            "schedule_prefix": S.schedule_of(rs[0], 12)})
        with concurrent.futures.ThreadPoolExecutor(max_workers=2) as ex:   # the witness runs go side by side with the judgement
            fw = ex.submit(self.witness_go, chk, runs, cs, what) if cfg.get("witness") else None
            res = self.judge(chk, runs, metas, cs, what, self.chunks(cfg, sum(len(x) for x in runs)))
            if fw:
                fw.result()
        st["accepted"], st["passes"] = res["accepted"], res["passes"]
        self.stats["go"].append(st)

    def jobs(self):
        return [("design", i, c) for i, c in enumerate(self.plan.get("design", []))] + [("go", i, c) for i, c in enumerate(self.plan.get("go", []))]

    def conclude(self, chk):
        """After all jobs of the system: model-level counterexamples must have been reproduced on the code; coverage of labels."""
        for inv, text in self.design_cex.items():
            if inv in self.reproduced:
                chk.notes.setdefault("design_counterexamples_reproduced_on_code", []).append(text)
            else:
                chk.inconclusive.append("%s (model-level counterexample, not reproduced on the generated code)" % text)
        missing = [l for l in self.obs.get("labels", []) if not self.labels.get(l)]
        if missing:
            chk.inconclusive.append("%s: labels never executed by the generated code in this run: %s (the observer's invariants would be vacuous)" % (self.name, missing))
        self.stats["labels_executed"] = dict(sorted(self.labels.items()))
        self.stats["invariants"] = {"spec": self.spec_invs + self.props, "observer": self.obs["invariants"]}


def run(chk):
    # dozens of short TLC runs side by side: keep each JVM small (by default every one starts 16 GC threads and a
    # 14 GB heap; measured on a 2 500-state trace: 81 s CPU / 27 s wall without, 22 s CPU / 17 s wall with these)
    os.environ.setdefault("JAVA_TOOL_OPTIONS", "-XX:ParallelGCThreads=2 -XX:CICompilerCount=2 -Xmx4g")
    drv = V.build_driver("sysdrv", chk.bindir)
    tables = {t["name"]: t for t in S.load_tables()}
    only = os.environ.get("VERIF_SYSTEMS")
    if getattr(chk, "replay", None):
        # a replay file names the system, tier and seed; the drivers are deterministic in the seed, so re-running that
        # system's plan re-executes the recorded case against the current tree
        import json
        rp = json.load(open(chk.replay))
        only = rp.get("case", {}).get("system") or only
        chk.seed, chk.tier = int(rp.get("seed", chk.seed)), rp.get("tier", chk.tier)
    systems, jobs = {}, []
    for name in SYSTEMS:
        if only and name not in only.split(","):
            continue
        t = tables.get(name)
        if not t or name not in OBS or not t.get("c16"):
            chk.gaps.append("system not bound yet: " + name)
            continue
        try:
            s = System(chk, name, t, drv)
        except V.Inconclusive as e:
            chk.inconclusive.append("%s: %s" % (name, str(e)[:600]))
            continue
        systems[name] = s
        jobs += [(s, kind, i, c) for (kind, i, c) in s.jobs()]
    if not systems:
        raise V.Inconclusive("no C16 system is bound")
    # heavy jobs first; all jobs are independent (own fork of chk, own files)
    jobs.sort(key=lambda j: -j[3].get("weight", 1))
    walls = {}

    def one(job):
        s, kind, i, c = job
        sub = chk.fork()
        t0 = time.time()
        try:
            {"design": s.design, "go": s.go}[kind](sub, i, c)
        except V.Inconclusive as e:
            sub.inconclusive.append("%s %s: %s" % (s.name, kind, str(e)[:600]))
        return s.name, kind, i, sub, time.time() - t0

    with concurrent.futures.ThreadPoolExecutor(max_workers=int(os.environ.get("VERIF_PAR", "8"))) as ex:
        for name, kind, i, sub, wall in ex.map(one, jobs):
            chk.merge(sub)
            walls["%s/%s%d" % (name, kind, i)] = round(wall, 1)
    for s in systems.values():
        s.conclude(chk)
    chk.exhaustive = all(d["ok"] for s in systems.values() for d in s.stats["design"]) and not chk.inconclusive
    chk.notes["per_system"] = {n: s.stats for n, s in systems.items()}
    chk.notes["job_wall_s"] = walls
    chk.assumptions += ["TLC/SANY/pcal", "spec-state env resources implement the mapping macros (validated against the spec by C02)",
                        "proxy: the fd mapping is PerfectFD on both sides (table invariant_args fd=1; the PlusCal is rewritten to the PerfectFD read before pcal)",
                        "nestedcrdtimpl: the CRDT operators are the grow-only counter of the shipped test (table rewrite instantiate-crdt-operators)",
                        "history variables of the observers are functions of (state, next state); attribution of an answer to a server / of a production to the producer uses the pc the generated code reports"]
    chk.gaps += ["shcounter: the counter is a plain global here; the 2PC resource of the shipped wiring is C11's subject",
                 "gcounter/shopcart: the merge processes (UpdateGCntr, UpdateCRDT) are model-only and played by harness actors; the real CRDT resource is C12/C13's subject",
                 "real TCP mailboxes / failure detector / file system of the shipped tests are not driven here (C06, C19, C01)",
                 "liveness properties of the specs (ClientsOk, ConsumerAlwaysConsumes, Eventual*, Termination) are out of scope: safety only"]
    return chk.finish(rule="per system: TLC exhaustive on spec/C16/<Sys>Obs.tla over the shipped spec (its invariants + the observer's); the state graph explored with the generated "
                           "archetypes (edge-covering walks) and seeded executions under MPCalContext.Run, every recorded real-code state judged by TLC with the same invariants "
                           "(history variables follow HStep); Go-side assertion failures are violations")
