"""C16 -- the other generated systems keep their specs' safety invariants.

Per system (dqueue, loadbalancer, proxy, shcounter, gcounter, shopcart, nestedcrdtimpl, replicatedkv -- as far
as bound in /verif/systems/*.json): TLC on the shipped spec with its invariants (design level); the complete
state graph reached by the generated archetypes on small instances and seeded executions under the real
MPCalContext.Run on larger ones, with the spec's invariants and action properties evaluated by TLC in every
real-code state; an assertion of the specification that fails in the generated code is a violation.
"""
import os
import vcommon as V
import sysrun as S

SYSTEMS = ["dqueue", "loadbalancer", "proxy", "shcounter", "gcounter", "shopcart", "nestedcrdtimpl", "replicatedkv"]
# property-level observers (spec/C16/<Module>.tla EXTENDS the system's spec): name -> (module, extra invariants, hist_step, init, reset)
OBS = {}


def run(chk):
    drv = V.build_driver("sysdrv", chk.bindir)
    tables = {t["name"]: t for t in S.load_tables()}
    only = os.environ.get("VERIF_SYSTEMS")
    stats = {}
    for name in SYSTEMS:
        if only and name not in only.split(","):
            continue
        t = tables.get(name)
        if not t:
            chk.gaps.append("system not bound yet: " + name)
            continue
        if not (t.get("invariants") or t.get("properties") or name in OBS):
            chk.gaps.append("%s: no named safety invariant in the spec; only assertion outcomes are judged" % name)
        o = OBS.get(name)
        if o:
            stats[name] = S.safety(chk, "C16", t, drv, chk.tier, extra_invariants=o[1], extra_module=o[0], hist_step=o[2], use_init=o[3], reset_extra=o[4])
        else:
            stats[name] = S.safety(chk, "C16", t, drv, chk.tier)
    chk.notes["per_system"] = stats
    if not stats:
        raise V.Inconclusive("no C16 system is bound")
    chk.assumptions += ["TLC/SANY", "spec-state env resources implement the mapping macros (validated against the spec by C02)",
                        "proxy's ProxyOK is judged with the perfect failure detector (table invariant_args)"]
    return chk.finish(rule="per system: TLC exhaustive on the shipped spec's invariants (small instances); complete Go state graph and seeded executions under Run with the invariants evaluated by TLC in every real-code state")
