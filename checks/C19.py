"""C19 -- the failure detector is complete and settles to accurate answers.

spec/C19/FD.tla        P = M: Monitor / SingleFailureDetector of distsys/resources/fd.go, one record state,
                       every action a guard + state transformer; the property as invariants over history counters
spec/C19/MCFD.tla      design level: free interleaving of all atomic steps (exhaustive, any number of polls)
spec/C19/FDGated.tla   the harness commands as compositions of FD.tla's transformers
spec/C19/MCFDGen.tla   generator: state graph of the harness commands (-dump dot / -simulate)
spec/C19/FDObs.tla     P-level trace spec (verdicts), FDTrace.tla M-level trace spec (conformance; drift only)
harness/cmd/c19drv     performs the commands on the real Monitor / detectors behind a relay it controls
"""
import collections, concurrent.futures, json, os, random, re, shutil, time
import vcommon as V
import tracegen as TG

VARIANTS_QUICK = ["finished_alive", "timeout_stuck", "start_absent"]
VARIANTS_ALL = ["finished_alive", "timeout_stuck", "dialfail_stuck", "panic_alive", "noredial", "read_inits", "start_absent"]
PARTS = ["Completeness", "Accuracy", "Initialised", "ReadPure", "ReadError", "MonitorCrash", "ReadSteadyFast", "ReadAbortBounded"]


# --------------------------------------------------------------------------- generator


def parse_dot(path):
    """Generator graph projected on the base state (the command name 'last' and the history counters are
    not part of a node): returns (init, out) with out[u][cmd] = v."""
    node_re = re.compile(r'^(-?\d+) \[label="((?:[^"\\]|\\.)*)"')
    edge_re = re.compile(r'^(-?\d+) -> (-?\d+) ')
    base, last, edges, init = {}, {}, [], None
    for ln in open(path):
        m = edge_re.match(ln)
        if m:
            edges.append((m.group(1), m.group(2)))
            continue
        m = node_re.match(ln)
        if m:
            lab = m.group(2).replace("\\n", " ").replace('\\"', '"').replace("\\\\", "\\")
            lm = re.search(r'last = "([^"]*)"', lab)
            bm = re.search(r"st = \[ (lsn .*?), +fin \|->", lab)
            if not lm or not bm:
                raise V.Inconclusive("generator graph: node without last/st")
            last[m.group(1)] = lm.group(1)
            base[m.group(1)] = bm.group(1)
            if "style = filled" in ln:
                init = m.group(1)
    if init is None:
        raise V.Inconclusive("generator graph: could not parse the dot dump")
    ids = {}

    def bid(n):
        return ids.setdefault(base[n], len(ids))

    out = collections.defaultdict(dict)
    i0 = bid(init)
    for u, v in edges:
        out[bid(u)][last[v]] = bid(v)
    for b in list(ids.values()):
        out.setdefault(b, {})
    return i0, out


def advance(out, u, rounds=3, max_timeouts=1):
    """Drive every created detector through some more iterations, reading at every hold point, so that the
    obligations of the property (counted in iterations) are reached at the end of every walk."""
    cmds, nto = [], 0
    for _ in range(rounds * 3):
        moved = False
        for d in ("1", "2"):
            for c in ("step:" + d, "timeout:" + d):
                if c in out[u] and not (c.startswith("timeout") and nto >= max_timeouts):
                    nto += c.startswith("timeout")
                    cmds.append(c)
                    u = out[u][c]
                    moved = True
                    if "read:" + d in out[u]:
                        cmds.append("read:" + d)
                        u = out[u]["read:" + d]
                    break
        if not moved:
            break
    return cmds


def cover_walks(init, out, rng, cap=70, max_timeouts=4, hop=10):
    """Walks from the initial state that together take every (state, command) edge of the graph."""
    uncovered = {(u, c) for u in out for c in out[u]}
    total = len(uncovered)

    def nearest(x, nto, limit):
        # shortest command path from x to a state with an uncovered edge
        seen = {x: None}
        q = collections.deque([(x, 0)])
        while q:
            u, dist = q.popleft()
            if any((u, c) in uncovered and not (c.startswith("timeout") and nto >= max_timeouts) for c in out[u]):
                p = []
                while seen[u] is not None:
                    u, c = seen[u]
                    p.append(c)
                return p[::-1]
            if dist >= limit:
                continue
            for c in sorted(out[u]):
                if c.startswith("timeout") or c.startswith("read"):
                    continue
                v = out[u][c]
                if v not in seen:
                    seen[v] = (u, c)
                    q.append((v, dist + 1))
        return None

    walks = []
    while uncovered:
        x, cmds, nto = init, [], 0
        first = True
        while len(cmds) < cap:
            p = nearest(x, nto, 10 ** 6 if first else hop)
            first = False
            if p is None:
                break
            for c in p:
                uncovered.discard((x, c))
                cmds.append(c)
                x = out[x][c]
            fresh = [c for c in sorted(out[x]) if (x, c) in uncovered and not (c.startswith("timeout") and nto >= max_timeouts)]
            if not fresh:
                break
            c = fresh[rng.randrange(len(fresh))]
            nto += c.startswith("timeout")
            uncovered.discard((x, c))
            cmds.append(c)
            x = out[x][c]
        if not cmds:
            # only time-out edges beyond the per-walk budget are left and unreachable: should not happen
            break
        walks.append(cmds + advance(out, x))
    return walks, total


def random_walks(init, out, rng, n, cap=45, max_timeouts=3):
    walks = []
    for _ in range(n):
        x, cmds, nto = init, [], 0
        while len(cmds) < cap:
            ks = [k for k in sorted(out[x]) if not (k.startswith("timeout") and nto >= max_timeouts)]
            if not ks:
                break
            # reads are cheap and everywhere; do not let them dominate
            w = [1 if k.startswith("read") else 3 for k in ks]
            k = rng.choices(ks, weights=w)[0]
            if k.startswith("timeout"):
                nto += 1
            cmds.append(k)
            x = out[x][k]
        walks.append(cmds + advance(out, x))
    return walks


def sim_walks(work, cfg, n, depth, seed):
    res, behs = TG.simulate_behaviours(work, "MCFDGen", cfg, n, depth, seed, timeout=900, prefix="sim-" + cfg)
    walks = []
    for b in behs:
        cmds = []
        for s in b[1:]:
            m = re.search(r'last \|-> "([^"]*)"', s["state"])
            if m:
                cmds.append(m.group(1))
        if cmds:
            walks.append(cmds)
    return res, walks


def cut_timeouts(cmds, limit=4):
    out, n = [], 0
    for c in cmds:
        n += c.startswith("timeout")
        if n > limit:
            break
        out.append(c)
    return out


def with_distractor(cmds, rng):
    out = list(cmds)
    i = rng.randrange(len(out) + 1)
    out.insert(i, "start:2")
    if rng.random() < 0.8:
        j = rng.randrange(i + 1, len(out) + 1)
        out.insert(j, "end:2:" + rng.choice(["normal", "error", "panic"]))
    return out


def mk_case(cid, cmds, rng, nd, watch, group):
    stalls = any(c.startswith("timeout") for c in cmds)
    return {"id": cid, "mode": "gated", "nd": nd, "na": 2, "watch": watch, "iv": rng.choice([4, 8, 15]),
            "T": 700 if stalls else 5000, "ids": rng.choice(["num", "num", "str"]), "via": rng.choice(["map", "single"]),
            "cmds": cmds, "how": "", "group": group}


def direct_cases(first, n, rng):
    orders = [["monup", "start", "det"], ["start", "monup", "det"], ["det", "monup", "start"], ["monup", "det", "start"],
              ["start", "det", "monup"], ["det", "start", "monup"]]
    hows = ["normal", "error", "panic", "monclose"]
    out = []
    for i in range(n):
        out.append({"id": first + i, "mode": "direct", "nd": 1, "na": 2, "watch": [1 + (i % 2)], "iv": rng.choice([4, 8, 15]),
                    "T": 5000, "ids": rng.choice(["num", "str"]), "via": rng.choice(["map", "single"]),
                    "cmds": orders[i % len(orders)], "how": hows[(i // 2) % len(hows)], "group": "1"})
    return out


# --------------------------------------------------------------------------- the check


def run(chk):
    specsrc = os.path.join(V.SPEC, "C19")
    work = os.path.join(chk.tmp, "spec")
    V.copy_specs(specsrc, work)
    quick = chk.quick()
    rng = random.Random(chk.seed)
    pool = concurrent.futures.ThreadPoolExecutor(max_workers=10)
    phases = {}
    t0 = time.time()

    def tlc_job(tag, module, cfg, **kw):
        w = os.path.join(chk.tmp, "tlc-" + tag)
        V.copy_specs(work, w)
        return V.tlc(w, module, cfg=cfg, deadlock=False, **kw), w

    def broken_job(variant):
        w = os.path.join(chk.tmp, "tlc-broken-" + variant)
        V.copy_specs(work, w)
        with open(os.path.join(w, "MCFDBroken.cfg"), "w") as f:
            f.write(open(os.path.join(w, "MCFDBroken.cfg.in")).read().replace("@V@", variant))
        return V.tlc(w, "MCFD", cfg="MCFDBroken.cfg", deadlock=False, workers=2, timeout=900)

    # 1. design level: started once the generator has delivered (it then overlaps with the driver and the folds)
    design, broken = {}, {}

    def start_design():
        design["MCFD1"] = pool.submit(tlc_job, "mcfd1", "MCFD", "MCFD1.cfg", workers=4, timeout=1200)
        if not quick:
            design["MCFD"] = pool.submit(tlc_job, "mcfd", "MCFD", "MCFD.cfg", workers=8, timeout=2400, heap="6g")
            design["MCFD2a"] = pool.submit(tlc_job, "mcfd2a", "MCFD", "MCFD2a.cfg", workers=4, timeout=2400, heap="4g")
        for v in (VARIANTS_QUICK if quick else VARIANTS_ALL):
            broken[v] = pool.submit(broken_job, v)

    # 2. generator graphs -> cases
    cases = []
    if chk.replay:
        rp = json.load(open(chk.replay))
        cs = dict(rp["case"]["spec"])
        cases = [cs]
    else:
        gens = {"gen1": pool.submit(tlc_job, "gen1", "MCFDGen", "MCFDGen1.cfg", workers=1, timeout=900, dump="gen.dot")}
        sims = {}
        if not quick:
            start_design()      # the 2 x 2 model takes minutes: start it at once
            gens["gen"] = pool.submit(tlc_job, "gen", "MCFDGen", "MCFDGen.cfg", workers=1, timeout=1500, dump="gen.dot")
            for g in ("2a", "2b"):
                sims[g] = pool.submit(sim_walks, work, "MCFDGen%s.cfg" % g, 150, 50, chk.seed)
        walks = []
        graph_note = {}
        for name, fut in gens.items():
            res, w = fut.result()
            chk.add_tlc("%s (generator graph of the harness commands; GParked, property on the compositions)" % name, res)
            if not res.ok:
                raise V.Inconclusive("generator TLC run %s failed: %s" % (name, res.error or res.violation or "timeout"))
            init, out = parse_dot(os.path.join(w, "gen.dot"))
            cw, nedges = cover_walks(init, out, rng)
            rw = random_walks(init, out, rng, (10 if quick else 60) if name == "gen1" else 250)
            graph_note[name] = {"base_states": len(out), "command_edges": nedges, "cover_walks": len(cw), "random_walks": len(rw)}
            walks += [(c, 1, [1], "1") for c in cw + rw]
            if name == "gen1":
                # a second archetype on the same monitor that the detector does not watch starts / ends at
                # arbitrary points (commands of archetype 2 are independent of everything else in FD.tla;
                # FDTrace checks that each schedule is a behaviour of the two-archetype model)
                dw = [with_distractor(c, rng) for c in rng.sample(cw, min(len(cw), 60 if quick else 200))]
                graph_note[name]["with_distractor_archetype"] = len(dw)
                walks += [(c, 1, [1], "1") for c in dw]
        if quick:
            start_design()
        for g, fut in sims.items():
            res, ws = fut.result()
            chk.add_tlc("MCFDGen%s simulation (generator: random behaviours of the harness commands)" % ("" if g == "1" else g), res)
            if res.error or res.timed_out:
                raise V.Inconclusive("generator simulation %s failed: %s" % (g, res.error or "timeout"))
            ws = [cut_timeouts(c) for c in ws]
            graph_note["sim" + g] = {"simulated_walks": len(ws)}
            walks += [(c, 1 if g == "1" else 2, {"1": [1], "2a": [1, 1], "2b": [1, 2]}[g], g) for c in ws]
        chk.notes["generator"] = graph_note
        seen = set()
        for cmds, nd, watch, group in walks:
            key = (tuple(cmds), group)
            if key in seen or not cmds:
                continue
            seen.add(key)
            cases.append(mk_case(len(cases) + 1, cmds, rng, nd, watch, group))
        cases += direct_cases(len(cases) + 1, 12 if quick else 72, rng)
        rng.shuffle(cases)

    # 3. the real code
    phases["generate_s"] = round(time.time() - t0, 1)
    t3 = time.time()
    drv = V.build_driver("c19drv", chk.bindir)
    cpath = os.path.join(chk.tmp, "cases.ndjson")
    with open(cpath, "w") as f:
        for c in cases:
            f.write(json.dumps(c) + "\n")
    opath = os.path.join(chk.tmp, "out.ndjson")
    if chk.replay and cases[0].get("mode") == "closerace":
        with open(cpath, "w") as f:
            pass
    rc, o = V.run([drv, "-cases", cpath, "-out", opath, "-par", "10", "-watchdog", "60"], timeout=1500 if quick else 2400)
    if rc != 0:
        raise V.Inconclusive("c19drv failed rc=%s: %s" % (rc, o[-3000:]))
    lines = V.read_jsonl(opath)
    segs = V.split_cases(lines)
    byid = {c["id"]: c for c in cases}
    # a case that got stuck or hit a harness problem (port taken, ...) is run once more on its own; only a
    # second failure of the same case makes the check inconclusive
    bad = [s[0]["id"] for s in segs if s[-1].get("why") in ("stuck", "harness", "driverpanic")]
    nskipped = sum(1 for s in segs if s[-1].get("why") == "skipped")
    if nskipped:
        why = [s[-1].get("detail") for s in segs if s[-1].get("why") == "stuck"][:1]
        raise V.Inconclusive("systematic hang: %d cases got stuck, %d were skipped; first: %s" % (len(bad), nskipped, why))
    if bad and not chk.replay:
        rpath, ropath = os.path.join(chk.tmp, "retry.ndjson"), os.path.join(chk.tmp, "retry-out.ndjson")
        with open(rpath, "w") as f:
            for i in bad:
                f.write(json.dumps(byid[i]) + "\n")
        rc, o = V.run([drv, "-cases", rpath, "-out", ropath, "-par", "3", "-watchdog", "90"], timeout=1500)
        if rc != 0:
            raise V.Inconclusive("c19drv (retry) failed rc=%s: %s" % (rc, o[-3000:]))
        again = {s[0]["id"]: s for s in V.split_cases(V.read_jsonl(ropath))}
        chk.notes["cases_retried"] = {str(i): [s[-1].get("why") for s in segs if s[0]["id"] == i][0] + " -> " +
                                      (again[i][-1].get("why") if i in again else "missing") for i in bad}
        segs = [again.get(s[0]["id"], s) if s[0]["id"] in bad else s for s in segs]
        lines = [ln for s in segs for ln in s]
    if len(segs) != len(cases) and not (chk.replay and cases[0].get("mode") == "closerace"):
        raise V.Inconclusive("c19drv wrote %d cases of %d" % (len(segs), len(cases)))
    if not chk.replay or cases[0].get("mode") == "closerace":
        # monitor shutdown while connections keep arriving (own process: the pinned tree dies of it)
        crpath = os.path.join(chk.tmp, "closerace.ndjson")
        rc, o = V.run([drv, "-mode", "closerace", "-out", crpath, "-rounds", "200" if quick else "1500", "-watchdog", "60"], timeout=900)
        if rc != 0 or not os.path.exists(crpath):
            raise V.Inconclusive("c19drv -mode closerace failed rc=%s: %s" % (rc, o[-2000:]))
        cr = V.split_cases(V.read_jsonl(crpath))
        byid[0] = {"id": 0, "mode": "closerace", "group": "cr"}
        if chk.replay:
            segs, lines = cr, []
        else:
            segs += cr
        lines += [ln for s in cr for ln in s]
    phases["driver_s"] = round(time.time() - t3, 1)
    ends = collections.Counter()
    groups = collections.defaultdict(list)
    for s in segs:
        end = s[-1]
        ends[end.get("why")] += 1
        if end.get("why") in ("stuck", "harness", "driverpanic"):
            chk.inconclusive.append("case %s (%s): %s: %s" % (s[0]["id"], s[0]["mode"], end.get("why"), end.get("detail")))
        groups[byid[s[0]["id"]].get("group", "1")].append(s)
    chk.notes["case_outcomes"] = dict(ends)
    if ends["disturbed"] > max(3, len(segs) * 0.4):
        chk.inconclusive.append("%d of %d cases were disturbed by timers firing on their own (overloaded machine)" % (ends["disturbed"], len(segs)))
    nreads = sum(1 for ln in lines if ln.get("e") in ("read", "dread"))
    chk.notes["events_recorded"] = len(lines)
    chk.notes["reads_recorded"] = nreads
    chk.notes["cases"] = len(segs)

    # 4. verdicts by TLC
    t4 = time.time()
    folds = {}
    for g, gs in sorted(groups.items()):
        cfg = "1" if g == "cr" else g       # the close-race probe is folded on its own (three lines)
        chunks = 1 if (quick or len(gs) < 200) else 6
        folds[g] = (gs, pool.submit(V.fold_traces, work, "FDObs", "FDObs_%s.cfg" % cfg, gs, timeout=2400, chunks=chunks, max_rounds=8),
                    pool.submit(V.fold_traces, work, "FDTrace", "FDTrace_%s.cfg" % cfg, gs, timeout=2400, chunks=chunks, max_rounds=8)
                    if g != "cr" else None)
    for g, (gs, fobs, fmt) in folds.items():
        obs = fobs.result()
        chk.states += obs["states"]; chk.transitions += obs["transitions"]
        # abandoned cases are folded (and judged up to the point they were abandoned) but not counted as validated
        chk.traces += max(0, obs["accepted"] - sum(1 for s in gs if s[-1].get("why") != "complete"))
        for e in obs["errors"]:
            chk.inconclusive.append("FDObs group %s: %s" % (g, e))
        for r in obs["rejected"]:
            seg = r["seg"]
            part = "rejected"
            for name in PARTS:
                if name in r["text"]:
                    part = name
            if r["kind"] == "stuck":
                chk.inconclusive.append("FDObs could not read case %s at event %d" % (seg[0]["id"], r["line_in_seg"]))
                continue
            ev = seg[r["line_in_seg"] - 1] if 0 < r["line_in_seg"] <= len(seg) else {}
            recent = [ln for ln in seg[max(1, r["line_in_seg"] - 9):r["line_in_seg"]]]
            ctx = ",".join(sorted({ln["e"] + (":" + ln.get("how", "") if ln["e"] == "end" else "") for ln in recent
                                   if ln["e"] in ("end", "netdown", "timeout", "monclose", "stall", "start")}))
            if part == "MonitorCrash":
                seg = [{k: v for k, v in ln.items() if k not in ("what", "detail")} for ln in seg]   # stack text varies
                chk.violation("C19:MonitorCrash:Close-during-accept",
                              "Monitor.Close() while connections arrive crashes the process inside the Monitor (nil listener in "
                              "ListenAndServe): monitor shutdown takes down every archetype of the process: %s" % ev.get("what", "")[:700],
                              {"spec": byid[seg[0]["id"]], "segment": seg, "line_in_seg": r["line_in_seg"], "tlc": r["text"]})
                continue
            chk.violation("C19:%s:mode=%s:after=%s" % (part, seg[0]["mode"], ctx or "-"),
                          "the real detector violates %s in case %s at event %d (%s): %s" % (
                              part, seg[0]["id"], r["line_in_seg"], json.dumps(ev), r["text"]),
                          {"spec": byid[seg[0]["id"]], "segment": seg, "line_in_seg": r["line_in_seg"], "tlc": r["text"]})
        if fmt is None:
            continue
        mt = fmt.result()
        chk.states += mt["states"]; chk.transitions += mt["transitions"]
        chk.notes["m_level_accepted_group_" + g] = mt["accepted"]
        for r in mt["rejected"][:20]:
            seg = r["seg"]
            ev = seg[r["line_in_seg"] - 1] if 0 < r["line_in_seg"] <= len(seg) else {}
            chk.drift.append({"spec": "FD.tla", "case": seg[0]["id"], "event": r["line_in_seg"], "line": ev, "text": r["text"]})
        for e in mt["errors"]:
            chk.drift.append({"spec": "FD.tla", "error": e})
    phases["fold_s"] = round(time.time() - t4, 1)

    # 5. design-level results
    if not chk.replay:
        for name, fut in design.items():
            res, _ = fut.result()
            chk.add_tlc("%s exhaustive (TypeOK, Completeness, Completeness2, Accuracy, Initialised, Recovery, ReadPure)" % name, res)
        chk.exhaustive = all(j["ok"] for j in chk.tlc_jobs if "exhaustive" in j["job"])
        rej = {}
        for v, fut in broken.items():
            res = fut.result()
            chk.tlc_jobs.append(res.summary("MCFD Variant=%s (expected: rejected)" % v))
            rej[v] = res.violation
            if not res.violation:
                chk.inconclusive.append("vacuity: the broken design %s is not rejected by the invariants" % v)
        chk.notes["broken_designs_rejected"] = rej
    pool.shutdown(wait=False)
    phases["total_s"] = round(time.time() - t0, 1)
    chk.notes["phases"] = phases

    gated = [s for s in segs if s[0]["mode"] == "gated" and s[-1].get("why") == "complete"]
    for s in gated[:3] + [x for x in segs if x[0]["mode"] == "direct"][:1]:
        chk.sample({"case": s[0]["id"], "mode": s[0]["mode"], "iv_ms": s[0]["iv"], "timeout_ms": s[0]["T"],
                    "events": [{k: v for k, v in ln.items() if k not in ("msg", "us")} for ln in s[1:26]]})
    chk.assumptions += [
        "TLC/SANY/Json module",
        "the relay and the in-process name service of c19drv are transparent: a dial succeeds iff the real Monitor listens and the "
        "detector's network is up; requests are forwarded to the real Monitor over its real RPC server",
        "an iteration of mainLoop has ended when the next one is seen to begin (mainLoop is sequential)",
        "a case in which a detector timer may have fired on its own is abandoned, never judged (counted in case_outcomes.disturbed)",
        "ReadBounded is judged on the fastest of many reads (load only slows reads down)",
    ]
    chk.gaps += [
        "iterations that perform no I/O (ErrShutdown on a cut connection) cannot be counted without a hook in mainLoop: "
        "a detector that never re-dials ends in INCONCLUSIVE (watchdog), Recovery is checked at design level only",
        "Monitor.Close racing with a not yet listening ListenAndServe is not exercised (the driver waits for the listener)",
    ]
    return chk.finish(rule="edge-covering + seeded random walks of MCFDGen's command graph (TLC dump; two-detector walks by TLC "
                           "simulation in the thorough tier) performed command by command on the real Monitor / failure detectors "
                           "behind a relay and name service owned by the driver; plus direct (no relay) cases; every recorded "
                           "event folded by TLC into FDObs.tla (verdicts) and FDTrace.tla (conformance)")
