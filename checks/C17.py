"""C17 -- Run/Stop/Close lifecycle: stops cleanly, never deadlocks, closes once.

spec/C17/Lifecycle.tla       M-spec: lock/channel protocol of distsys/mpcalctx.go (Run, Stop), variants
                             pinned / fixA / fixB / fixed
spec/C17/MCLifecycle*.cfg    exhaustive design-level checks (deadlock check ON, liveness) + expected
                             counterexamples of the unrepaired variants (vacuity)
spec/C17/MCLifecycleGen.tla  generator: state graph of "one harness command at a time, code quiescent"
spec/C17/LifecycleObs.tla    P-spec: verdicts on the events recorded from the real code (LifecycleObs.cfg: non-stopping
                             Judge used by this check; LifecycleObsStrict.cfg: the six invariants, for use by hand)
spec/C17/LifecycleTrace.tla  M-level trace spec (conformance; a rejection is drift)
spec/C17/NestedLifecycle.tla M-spec of the composition outer context + resources.NewNested + k >= 2 inner contexts
                             (nestedArchetype.Close stops and awaits ALL inner contexts); variants ok / seed / firsterr / noawait
spec/C17/MCNested*.cfg       exhaustive checks of it (deadlock check ON, liveness) + expected counterexamples of the broken variants
spec/C17/MCNestedGen.tla     generator for the nested cases (commands also move the inner contexts)
spec/C17/NestedTrace.tla     M-level trace spec of the nested cases (conformance; a rejection is drift)
harness/cmd/c17drv           drives the real MPCalContext with gates, instrumented resources, goroutine
                             states and the Go runtime's deadlock detector (no hooks in /repo)
"""
import collections
import concurrent.futures
import json
import os
import random
import re
import shutil
import tempfile
import time

import vcommon as V

ID = "C17"
BOUND = 2
ENDS = ["done", "assert", "errlabel", "reserr", "preerr"]


# --------------------------------------------------------------------------- case generation


def parse_dot(path):
    last, out, init = {}, {}, None
    node_re = re.compile(r'^(-?\d+) \[label="((?:[^"\\]|\\.)*)"')
    edge_re = re.compile(r'^(-?\d+) -> (-?\d+) ')
    for ln in open(path):
        m = edge_re.match(ln)
        if m:
            out.setdefault(m.group(1), [])
            if m.group(2) not in out[m.group(1)]:
                out[m.group(1)].append(m.group(2))
            continue
        m = node_re.match(ln)
        if m:
            lm = re.search(r'last = \\"([^\\]*)\\"', m.group(2))
            if not lm:
                raise V.Inconclusive("generator graph: node without 'last'")
            last[m.group(1)] = lm.group(1)
            out.setdefault(m.group(1), [])
            if "style = filled" in ln:
                init = m.group(1)
    for u in out:
        out[u].sort()
    if init is None or not last:
        raise V.Inconclusive("generator graph: could not parse the dot dump")
    return init, last, out


def walks_from_graph(init, last, out, rng, nrandom, cap=48):
    """Walks from the initial state covering every (quiescent state, command) edge, plus random walks."""
    parent = {init: None}
    order = [init]
    for u in order:
        for v in out[u]:
            if v not in parent:
                parent[v] = u
                order.append(v)

    def path_to(u):
        p = []
        while u is not None:
            p.append(u)
            u = parent[u]
        return p[::-1]

    env_edges = [(u, v) for u in order for v in out[u] if last[v] != "tau"]
    uncovered = set(env_edges)
    walks = []

    def extend(p):
        while len(p) < cap:
            w = p[-1]
            succ = [z for z in out[w] if z != w]
            if not succ:
                break
            fresh = [z for z in succ if (w, z) in uncovered]
            taus = [z for z in succ if last[z] == "tau"]
            if fresh:
                z = fresh[0]
            elif taus:
                z = taus[rng.randrange(len(taus))]
            else:
                break
            uncovered.discard((w, z))
            p.append(z)
        return p

    for e in env_edges:
        if e not in uncovered:
            continue
        p = path_to(e[0]) + [e[1]]
        for a, b in zip(p, p[1:]):
            uncovered.discard((a, b))
        walks.append(extend(p))
    for _ in range(nrandom):
        p = [init]
        while len(p) < cap:
            succ = [z for z in out[p[-1]] if z != p[-1]]
            if not succ or (len(p) > 6 and rng.random() < 0.04):
                break
            p.append(succ[rng.randrange(len(succ))])
        walks.append(p)
    seen, cmds = set(), []
    for p in walks:
        c = [last[v] for v in p[1:] if last[v] != "tau"]
        if c and tuple(c) not in seen:
            seen.add(tuple(c))
            cmds.append(c)
    return cmds, len(env_edges)


def nested_walks(init, last, out, rng, nrandom, cap=40, cover=True):
    """Walks of MCNestedGen's graph covering every (quiescent state, command) edge: each walk goes from the initial
    state to the nearest state with an uncovered command, takes it, and goes on from there (breadth-first, so walks
    are short) until nothing uncovered is reachable; plus seeded random walks."""
    env = [(u, v) for u in out for v in out[u] if last[v] != "tau"]
    unc = set(env)

    def nearest(src):
        par = {src: None}
        q = collections.deque([src])
        while q:
            u = q.popleft()
            if any((u, v) in unc for v in out[u]):
                path = [u]
                while par[u] is not None:
                    u = par[u]
                    path.append(u)
                return path[::-1]
            for v in out[u]:
                if v not in par:
                    par[v] = u
                    q.append(v)
        return None

    walks = []
    while unc and cover:
        p = [init]
        while len(p) < cap:
            q = nearest(p[-1])
            if q is None:
                break
            p += q[1:]
            p.append([z for z in out[p[-1]] if (p[-1], z) in unc][0])
            for a, b in zip(p, p[1:]):
                unc.discard((a, b))
        if len(p) == 1:
            break
        walks.append(p)
    for _ in range(nrandom):
        p = [init]
        while len(p) < cap:
            succ = [z for z in out[p[-1]] if z != p[-1]]
            if not succ or (len(p) > 8 and rng.random() < 0.03):
                break
            p.append(succ[rng.randrange(len(succ))])
        walks.append(p)
    seen, cmds = set(), []
    for p in walks:
        c = [last[v] for v in p[1:] if last[v] != "tau"]
        if c and tuple(c) not in seen:
            seen.add(tuple(c))
            cmds.append(c)
    return cmds, len(env)


def nested_cases(cmds, rng, first_id):
    """Turns command walks of the 2-inner-context generator into driver cases: "finish:end" becomes every ending of the
    outer run in turn; a "stop" command becomes 1-3 Stop calls (the model admits them: NestedTrace has NStop = 5); every
    third walk runs on THREE inner contexts (the two of the walk mapped into them in a seeded way, the third commanded at
    seeded points before the outer run ends, otherwise running until Close stops it)."""
    cases = []
    for n, c in enumerate(cmds):
        k = 3 if n % 3 == 2 else 2
        sigma = {"1": "1", "2": "2"}
        if k == 3:
            a, b = rng.sample(["1", "2", "3"], 2)
            sigma = {"1": a, "2": b}
        third = [x for x in "123" if x not in sigma.values()][0] if k == 3 else None
        tstate = "gateB"
        steps = []
        ending = False
        for cmd in c:
            f = cmd.split(":")
            if third and not ending and tstate != "gone" and rng.random() < 0.25:
                if tstate == "gateB":
                    steps.append("ienter:" + third)
                    tstate = "body"
                else:
                    kind = rng.choice(["commit", "commit", "done", "err"])
                    steps.append("ifinish:%s:%s" % (third, kind))
                    tstate = "gateB" if kind == "commit" else "gone"
            if cmd == "finish:end":
                steps.append("finish:" + ENDS[(n + len(steps)) % len(ENDS)])
                ending = True
            elif cmd == "stop":
                steps += ["stop"] * (1 + (rng.randrange(3) if rng.random() < 0.5 else 0))
                ending = True
            elif f[0] in ("ienter", "ifinish"):
                f[1] = sigma[f[1]]
                steps.append(":".join(f))
            else:
                steps.append(cmd)
        cases.append({"id": first_id + n, "mode": "nproto", "mix": "nested%d" % k, "inner": k, "bound": BOUND,
                      "steps": steps, "closeerr": n % 5 == 0})
    return cases


def free_cases(rng, mix, n, first_id):
    cases = []
    for i in range(n):
        body = [rng.choice(["commit", "commit", "abort"]) for _ in range(rng.randrange(0, 6))]
        if rng.random() < 0.45:
            script = body + ["commit"] * 300  # runs until stopped ("done" after the script is a backstop)
            nstops = rng.randrange(1, 5)
            whens = ["begin"] + [rng.choice(["pre", "begin", "begin", "close", "post"]) for _ in range(nstops - 1)]
            if mix in ("fd", "tcp", "nested"):
                script = body + ["commit"] * 40
        else:
            script = body + [rng.choice(ENDS)]
            nstops = rng.randrange(0, 5)
            whens = [rng.choice(["pre", "begin", "begin", "close", "close", "post"]) for _ in range(nstops)]
        if whens.count("pre") == len(whens) and whens and rng.random() < 0.7:
            whens[0] = "begin"
        stops = [{"when": w, "k": rng.randrange(1, len(body) + 3), "yield": rng.randrange(0, 25)} for w in whens]
        cases.append({"id": first_id + i, "mode": "free", "mix": mix, "bound": BOUND, "script": script,
                      "stops": stops, "rerun": rng.random() < 0.3, "closeerr": rng.random() < 0.2,
                      "closeyield": rng.randrange(0, 12)})
    return cases


# --------------------------------------------------------------------------- folding


def pfold(specdir, segs, timeout=1500):
    """P-level verdicts: one TLC pass over the concatenated segments with LifecycleObs.tla. TLC evaluates the
    property predicates on every state and prints the violated ones (it is the judge); nothing here decides.
    Returns (verdicts {index of segment: (line_in_seg, [names])}, ok, states, transitions, error)."""
    work = tempfile.mkdtemp(prefix="pfold.", dir=os.path.dirname(specdir))
    V.copy_specs(specdir, work)
    starts, n = [], 0
    with open(os.path.join(work, "trace.ndjson"), "w") as f:
        for s in segs:
            starts.append(n + 1)
            for ln in s:
                f.write(json.dumps(ln) + "\n")
                n += 1
    res = V.tlc(work, "LifecycleObs", cfg="LifecycleObs.cfg", workers=1, timeout=timeout, deadlock=False)
    shutil.rmtree(work, ignore_errors=True)
    if res.timed_out or res.error or res.violation:
        return {}, False, res.distinct, res.generated, res.error or res.violation or "timeout"
    if res.depth != n + 1:
        return {}, False, res.distinct, res.generated, "LifecycleObs consumed %d of %d lines (unreadable event at line %d)" % (
            res.depth - 1, n, res.depth)
    verdicts = {}
    # TLC wraps long tuples over several lines ("<< "VIOLATED",\n 48,\n ..."): match across white space
    for cl, ln, names in re.findall(r'<<\s*"VIOLATED",\s*(\d+),\s*(\d+),\s*<<(.*?)>>\s*>>', res.out, re.S):
        i = starts.index(int(cl))
        if i not in verdicts or int(ln) - int(cl) + 1 < verdicts[i][0]:
            verdicts[i] = (int(ln) - int(cl) + 1, re.findall(r'"(\w+)"', names))
    return verdicts, True, res.distinct, res.generated, None


def mfold(specdir, segs, timeout=900, max_rounds=4, module="LifecycleTrace", cfg="LifecycleTrace.cfg"):
    """Conformance of case segments to Lifecycle.tla / NestedLifecycle.tla (free internal steps => search). Returns
    (accepted, rejected segments, states, transitions, errors)."""
    acc, rej, st, tr, errs = 0, [], 0, 0, []
    part = list(segs)
    rounds = 0
    while part and rounds < max_rounds:
        rounds += 1
        work = tempfile.mkdtemp(prefix="mfold.", dir=os.path.dirname(specdir))
        V.copy_specs(specdir, work)
        starts, n = [], 0
        with open(os.path.join(work, "trace.ndjson"), "w") as f:
            for s in part:
                starts.append(n + 1)
                for ln in s:
                    f.write(json.dumps(ln) + "\n")
                    n += 1
        res = V.tlc(work, module, cfg=cfg, workers=1, timeout=timeout, deadlock=False)
        shutil.rmtree(work, ignore_errors=True)
        st += res.distinct
        tr += res.generated
        if res.timed_out or res.error or res.violation:
            errs.append(res.error or res.violation or "timeout")
            break
        if '"ACCEPTED"' in res.out:
            acc += len(part)
            part = []
            break
        reached = [int(x) for x in re.findall(r'<<"CASE", (\d+)>>', res.out)]
        if not reached:
            errs.append("trace spec printed no progress")
            break
        i = starts.index(max(reached))
        rej.append(part[i])
        acc += i
        part = part[i + 1:]
    if part and rounds >= max_rounds:
        errs.append("more than %d non-conforming segments in one chunk; %d segments not compared" % (max_rounds, len(part)))
    return acc, rej, st, tr, errs


# --------------------------------------------------------------------------- the check


def set_consts(work, cfg, nstop, nrun):
    p = os.path.join(work, cfg)
    s = open(p).read()
    s = re.sub(r"NStop = \d+", "NStop = %d" % nstop, s)
    s = re.sub(r"NRun = \d+", "NRun = %d" % nrun, s)
    s = re.sub(r"NInner = \d+", "NInner = %d" % nrun, s)  # nested configurations: the second number is NInner
    open(p, "w").write(s)


def shape(seg):
    ev = [ln.get("e") for ln in seg]
    ends = [ln.get("kind") for ln in seg if ln.get("e") == "secend"]
    return "stops=%d,runs=%d,ending=%s" % (ev.count("stopcall"), ev.count("runcall"),
                                            (ends[-1] if ends else "none"))


def run(chk):
    specsrc = os.path.join(V.SPEC, ID)
    work = os.path.join(chk.tmp, "spec")
    V.copy_specs(specsrc, work)
    quick = chk.quick()
    rng = random.Random(chk.seed * 7919 + 17)
    nstop, nrun = (3, 2) if quick else (4, 3)

    # ---- 1. design level (TLC on the M-spec); jobs run side by side, each in its own copy
    expect = [("MCLifecyclePinned.cfg", "Deadlock reached", "pinned tree: Stop calls overlapping the clean-up deadlock"),
              ("MCLifecyclePinnedInv.cfg", "RunsAtMostOnce", "pinned tree: a finished context runs again"),
              ("MCLifecycleFixA.cfg", "RunsAtMostOnce", "only the Stop repair: a context that ended by itself runs again"),
              ("MCLifecycleFixB.cfg", "Deadlock reached", "only the Run repair: the deadlock remains"),
              ("MCNestedSeed.cfg", "Deadlock reached", "nested Close that only stops the inner contexts if none has ended yet: "
                                                       "it waits for ever for an inner context nobody asked to stop"),
              ("MCNestedFirstErr.cfg", "ClosedOnReturn", "nested Close that stops receiving at the first inner error: the outer "
                                                         "run returns while an inner context is still running"),
              ("MCNestedNoAwait.cfg", "ClosedOnReturn", "nested Close that stops the inner contexts without awaiting them")]
    ninner, nnstop = (2, 1) if quick else (3, 1)      # MCNested.cfg (safety, exhaustive)
    lnstop = 2                                         # MCNestedLive.cfg (liveness, 2 inner contexts; thorough tier only)
    gnstop = 1 if quick else 2                         # MCNestedGen.cfg (generator, 2 inner contexts)
    if quick:   # quick tier: only the seeded variant as vacuity guard of the nested model
        expect = [e for e in expect if e[0] not in ("MCNestedFirstErr.cfg", "MCNestedNoAwait.cfg")]

    fp = ["-fp", "7"]   # fixed fingerprint polynomial: node names and therefore the walks depend on VERIF_SEED only

    def design_job(job):
        cfg, ns, nr = job
        w = os.path.join(chk.tmp, "tlc-" + cfg)
        V.copy_specs(specsrc, w)
        set_consts(w, cfg, ns, nr)
        if cfg == "MCLifecycle.cfg":
            return cfg, V.tlc(w, "MCLifecycle", cfg=cfg, workers=4, timeout=1500, extra=["-coverage", "1"]), None
        if cfg == "MCLifecycleGen.cfg":
            dot = os.path.join(w, "gen.dot")
            return cfg, V.tlc(w, "MCLifecycleGen", cfg=cfg, workers=1, timeout=900, deadlock=False, dump=dot, extra=fp), dot
        if cfg == "MCNestedGen.cfg":
            dot = os.path.join(w, "gen.dot")
            return cfg, V.tlc(w, "MCNestedGen", cfg=cfg, workers=1, timeout=900, deadlock=False, dump=dot, extra=fp), dot
        if cfg in ("MCNested.cfg", "MCNestedLive.cfg"):
            return cfg, V.tlc(w, "MCNested", cfg=cfg, workers=4, timeout=1500, extra=["-coverage", "1"]), None
        if cfg.startswith("MCNested"):
            return cfg, V.tlc(w, "MCNested", cfg=cfg, workers=2, timeout=600), None
        return cfg, V.tlc(w, "MCLifecycle", cfg=cfg, workers=2, timeout=600), None

    pool = concurrent.futures.ThreadPoolExecutor(max_workers=24)
    jobs = {}
    if not chk.replay:
        # the generators first (the driver batches wait for them); for the nested configurations the numbers are (NStop, NInner)
        todo = [("MCLifecycleGen.cfg", nstop, 2), ("MCNestedGen.cfg", gnstop, 2), ("MCLifecycle.cfg", nstop, nrun),
                ("MCNested.cfg", nnstop, ninner)] + ([] if quick else [("MCNestedLive.cfg", lnstop, 2)]) + [
                    (c, (1 if quick else 2) if c.startswith("MCNested") else 3, 2) for c, _, _ in expect]
        gens = ("MCLifecycleGen.cfg", "MCNestedGen.cfg")

        def late_job(job):   # the expected-counterexample runs give way to the generators (the driver batches wait for those)
            for g in gens:
                jobs[g].result()
            return design_job(job)

        early = [j for j in todo if j[0] in gens or j[0] in ("MCLifecycle.cfg", "MCNested.cfg", "MCNestedLive.cfg")]
        jobs = {j[0]: pool.submit(design_job, j) for j in early}
        jobs.update({j[0]: pool.submit(late_job, j) for j in todo if j not in early})
    # ---- 2. build the driver (no cgo: the Go runtime's deadlock detector must be active)
    drv = V.build_driver("c17drv", chk.bindir, tags="verif,netgo,osusergo")

    # ---- 3./4. cases, run on the real code (free-running batches start while TLC still works)
    specs = {}

    def run_batch(item):
        name, cases = item
        cf = os.path.join(chk.tmp, "cases-%s.ndjson" % name)
        of = os.path.join(chk.tmp, "trace-%s.ndjson" % name)
        with open(cf, "w") as f:
            for c in cases:
                f.write(json.dumps(c) + "\n")
        t0 = time.time()
        rc, o = V.run([drv, "-mode", "sup", "-cases", cf, "-out", of, "-stall",
                       "240" if name in ("proto", "nproto", "free-leaf", "free-maps", "replay") else "150",
                       "-maxdeadlocks", "6" if name == "nproto" else "0"],
                      timeout=1500 if quick else 2400)
        if rc != 0:
            return name, cases, [], "FAILED rc=%s: %s" % (rc, o[-1500:])
        return name, cases, V.split_cases(V.read_jsonl(of)), o.strip().splitlines()[-1] + " wall=%.0fs" % (time.time() - t0)

    futs = []
    if chk.replay:
        rp = json.load(open(chk.replay))
        futs.append(pool.submit(run_batch, ("replay", [rp["case"]["spec"]])))
    else:
        sizes = {"leaf": 120, "maps": 300, "nested": 30, "fd": 10, "tcp": 4} if quick else \
                {"leaf": 1000, "maps": 2500, "nested": 250, "fd": 60, "tcp": 24}
        nid = 100000
        for mix, n in sizes.items():
            futs.append(pool.submit(run_batch, ("free-" + mix, free_cases(rng, mix, n, nid))))
            nid += 100000
        _, res, _ = jobs["MCLifecycleGen.cfg"].result()
        chk.add_tlc("MCLifecycleGen k=%d (generator: harness commands at quiescent states)" % nstop, res)
        if not res.ok:
            raise V.Inconclusive("generator TLC run failed: %s" % (res.error or res.violation))
        init, last, out = parse_dot(os.path.join(chk.tmp, "tlc-MCLifecycleGen.cfg", "gen.dot"))
        cmds, nedges = walks_from_graph(init, last, out, rng, 120 if quick else 1000)
        chk.notes["generator_graph"] = {"states": len(last), "command_edges": nedges, "walks": len(cmds)}
        futs.append(pool.submit(run_batch, ("proto", [{"id": i + 1, "mode": "proto", "mix": "maps", "bound": BOUND,
                                                       "steps": c, "closeerr": i % 3 == 0} for i, c in enumerate(cmds)])))
        # nested cases: walks of MCNestedGen (2 inner contexts), run on 2 and on 3 inner contexts
        _, res, _ = jobs["MCNestedGen.cfg"].result()
        chk.add_tlc("MCNestedGen inner=2 stops=%d (generator: harness commands incl. the gates of the inner contexts)" % gnstop, res)
        if not res.ok:
            raise V.Inconclusive("nested generator TLC run failed: %s" % (res.error or res.violation))
        init, last, out = parse_dot(os.path.join(chk.tmp, "tlc-MCNestedGen.cfg", "gen.dot"))
        ncmds, nedges = nested_walks(init, last, out, rng, 0)
        ncover = len(ncmds)
        if quick:   # a third of the edge cover per seed: three consecutive seeds replay every (state, command) edge
            ncmds = [c for n, c in enumerate(ncmds) if (n + chk.seed) % 3 == 0]
        ncmds += [c for c in nested_walks(init, last, out, rng, 40 if quick else 600, cover=False)[0] if c not in ncmds]
        chk.notes["nested_generator_graph"] = {"states": len(last), "command_edges": nedges, "walks_covering_every_edge": ncover,
                                               "walks_replayed": len(ncmds)}
        futs.append(pool.submit(run_batch, ("nproto", nested_cases(ncmds, rng, 700001))))
        # design-level results
        for cfg, name in (("MCNested.cfg", "MCNested ok inner=%d stops=%d: no deadlock, ClosedAtMostOnce, ClosedOnReturn (every inner "
                           "context stopped AND awaited), NoLateInnerCommit, StopMeansStopped, ErrChDrained" % (ninner, nnstop)),
                          ("MCNestedLive.cfg", "MCNested ok inner=2 stops=%d: liveness EveryStopReturns, CleanupCompletes, "
                           "InnerStopsReturn" % lnstop)):
            if cfg not in jobs:
                continue
            _, res, _ = jobs[cfg].result()
            chk.add_tlc(name, res)
            zeros = [z for z in res.coverage_zero() if "NestedLifecycle" in z]
            if cfg == "MCNested.cfg":
                chk.notes["coverage_zero_nested_ok_variant"] = zeros[:8]  # expected: only branches of the broken variants
        _, res, _ = jobs["MCLifecycle.cfg"].result()
        chk.add_tlc("MCLifecycle fixed k=%d runs=%d: no deadlock, RunsAtMostOnce, NoLateCommit, ClosedAtMostOnce, "
                    "ClosedOnReturn, StopMeansStopped, SendNeverBlocks, liveness EveryStopReturns" % (nstop, nrun), res)
        chk.exhaustive = res.ok and jobs["MCNested.cfg"].result()[1].ok
        zeros = [z for z in res.coverage_zero() if "Lifecycle" in z]
        chk.notes["coverage_zero_fixed_variant"] = zeros[:8]  # expected: only the close-of-closed-channel branch
        for cfg, want, what in expect:
            _, r2, _ = jobs[cfg].result()
            chk.tlc_jobs.append(r2.summary("%s (EXPECTED counterexample: %s)" % (cfg, what)))
            chk.states += r2.distinct
            chk.transitions += r2.generated
            if not (r2.violation and want in r2.violation):
                chk.inconclusive.append("vacuity: %s no longer yields the expected counterexample (%s): %s" % (
                    cfg, want, r2.violation or r2.error or "none"))

    segs = []
    for fu in futs:
        name, cases, ss, summary = fu.result()
        chk.notes.setdefault("driver_batches", {})[name] = "%d cases recorded; %s" % (len(ss), summary)
        if summary.startswith("FAILED"):
            chk.inconclusive.append("c17drv batch %s: %s" % (name, summary))
        by_id = {c["id"]: c for c in cases}
        for s in ss:
            specs[id(s)] = by_id.get(s[0].get("id"))
        stuck = [s for s in ss if s[-1].get("why") == "watchdog"]
        skipped = int((re.findall(r"skipped=(\d+)", summary) or ["0"])[-1])   # cases left out after 6 confirmed deadlocks
        if stuck or len(ss) + skipped < len(cases):
            chk.inconclusive.append("c17drv batch %s: %d case(s) made no progress and were given up, %d not executed (the Go "
                                    "runtime cannot prove a deadlock while timers / the netpoller are alive)" % (
                                        name, len(stuck), len(cases) - len(ss) - skipped))
        segs += [s for s in ss if s[-1].get("why") != "watchdog"]
    incomplete = [s for s in segs if s[-1].get("e") != "end"]
    if incomplete:
        raise V.Inconclusive("%d recorded cases have no end event (driver problem)" % len(incomplete))

    chk.notes["wall_s_until_all_batches_recorded"] = round(time.time() - chk.t0, 1)
    # ---- 5. P-level verdicts (TLC folds every recorded execution into LifecycleObs.tla)
    chunks = 4 if quick else 12
    parts = [segs[i::chunks] for i in range(chunks) if segs[i::chunks]]
    bad_ids = set()
    reported = {}
    pfuts = [pool.submit(pfold, work, p) for p in parts]
    # ---- 6a. M-level conformance runs side by side with the verdicts (its results are used for drift only, and only for
    # cases the P-level accepted); cases that did not end with every call returned are not compared at all
    mcand = [s for s in segs if s[-1].get("why") == "complete"]
    good = [s for s in mcand if s[0].get("mode") != "nproto"]
    mparts = [("Lifecycle.tla (Variant fixed)", "LifecycleTrace", "LifecycleTrace.cfg", good[i::chunks])
              for i in range(chunks) if good[i::chunks]]
    for k in (2, 3):   # nested cases: the number of inner contexts is a constant of the model
        ngood = [s for s in mcand if s[0].get("mode") == "nproto" and s[0].get("mix") == "nested%d" % k]
        nch = max(1, chunks // 4)
        mparts += [("NestedLifecycle.tla (Variant ok, %d inner contexts)" % k, "NestedTrace", "NestedTrace%d.cfg" % k, ngood[i::nch])
                   for i in range(nch) if ngood[i::nch]]
    mfuts = [pool.submit(mfold, work, p[3], module=p[1], cfg=p[2]) for p in mparts]
    for part, (verdicts, ok, st, tr, err) in zip(parts, [f.result() for f in pfuts]):
        chk.states += st
        chk.transitions += tr
        if not ok:
            chk.inconclusive.append("LifecycleObs: " + str(err))
            continue
        chk.traces += len(part) - len(verdicts)
        for i, (line, names) in sorted(verdicts.items()):
            seg = part[i]
            bad_ids.add(id(seg))
            inv = names[0] if names else "rejected"
            key = "C17:%s:mode=%s:mix=%s" % (inv, seg[0].get("mode"), seg[0].get("mix"))
            reported[key] = reported.get(key, 0) + 1
            if reported[key] > 1:
                continue  # one replay per failing class; the count is in the evidence
            where = [ln.get("where") for ln in seg if ln.get("e") == "end" and ln.get("why") in ("deadlock", "crash")]
            what = "real MPCalContext execution violates %s in case %s (mode %s, mix %s, %s), event %d of the case" % (
                "+".join(names), seg[0].get("id"), seg[0].get("mode"), seg[0].get("mix"), shape(seg), line)
            if where and seg[-1].get("why") == "crash":
                what += "; the process died: " + "; ".join(where[0] or [])
            elif where:
                what += "; Go runtime: all goroutines asleep, parked at " + "; ".join(where[0] or [])
            chk.violation(key, what, {"spec": specs.get(id(seg)), "segment": seg, "line_in_seg": line, "violated": names})
    chk.notes["violating_cases_per_class"] = reported

    chk.notes["wall_s_until_verdicts"] = round(time.time() - chk.t0, 1)
    # ---- 6. M-level conformance (drift only)
    macc = 0
    if True:
        for (spec, _, _, mpart), (acc, rej, st, tr, errs) in zip(mparts, [f.result() for f in mfuts]):
            nbad = sum(1 for s in mpart if id(s) in bad_ids)
            macc += max(0, acc - sum(1 for s in mpart if id(s) in bad_ids and not any(s is r for r in rej)))
            chk.states += st
            chk.transitions += tr
            for s in rej:
                if id(s) in bad_ids:
                    continue   # a violating execution: judged at the P-level, not a matter of model drift
                chk.drift.append({"spec": spec, "case": s[0].get("id"), "mode": s[0].get("mode"),
                                  "mix": s[0].get("mix"), "events": len(s)})
            for e in errs:
                if nbad and "non-conforming" in e:
                    continue
                chk.drift.append({"spec": spec, "error": e})
    chk.notes["m_level_traces_accepted"] = macc
    chk.notes["cases_recorded"] = len(segs)
    chk.notes["events_recorded"] = sum(len(s) for s in segs)
    chk.notes["deadlocks_reported_by_go_runtime"] = sum(1 for s in segs if s[-1].get("why") == "deadlock")
    for s in (segs[:1] + [x for x in segs if x[0].get("mode") == "free"][:2] + [x for x in segs if x[0].get("mode") == "nproto"][:2]):
        sp = dict(specs.get(id(s)) or {})
        if len(sp.get("script", [])) > 10:
            sp["script"] = sp["script"][:8] + ["... (%d kinds in all)" % len(sp["script"])]
        chk.sample({"case": sp, "events": s[1:40]})
    chk.assumptions += [
        "TLC/SANY/Json module",
        "goroutine states printed by runtime.Stack (chan send / chan receive / sync.Mutex.Lock) tell where a Stop call is parked",
        "the Go runtime's deadlock detector (driver built without cgo) is the only source of 'deadlock' events; "
        "contexts over real FD / TCP resources keep timers or the netpoller alive, so there a deadlock would end in INCONCLUSIVE",
        "StopsAtLabelBoundary: at most %d section begins after a Stop call was seen parked (slack over 'the next label boundary')" % BOUND,
        "hand-built archetype A (one looping label + Done/Error/assert endings shaped like generated code)",
        "nested cases: hand-built inner archetypes that do not serve the nested-archetype request protocol (the outer sections "
        "do not use the nested resource), so no timer is armed and a hang of nestedArchetype.Close is proved by the Go runtime; "
        "after the walk every still running inner context is granted %d further sections, one gate at a time and only when every "
        "goroutine is parked (a context that was asked to stop leaves at its next loop head)" % (BOUND + 1),
    ]
    chk.gaps += ["Close of individual TCP mailbox elements is not counted (constructors unexported); the Mailboxes map is counted as a whole",
                 "context-internal LocalArchetypeResources (.pc, .stack, ref cells) are not instrumented",
                 "interleavings inside Run's check/poll/notify regions are covered by TLC exhaustively and by free-running races, not by deterministic replay",
                 "nested cases (nproto): the outer sections do not use the nested resource and the inner archetypes do not serve its request "
                 "protocol (that is what the free-running 'nested' mix does, with ONE inner context); the cases on three inner contexts are the "
                 "generator's two-context walks mapped into three contexts plus seeded commands for the third, not walks of a three-context graph; "
                 "the quick tier replays a third of the edge cover per seed (seeds s, s+1, s+2 together replay every edge), the thorough tier all of it"]
    return chk.finish(rule="edge-covering + seeded random walks of MCLifecycleGen's state graph replayed command by command on the real "
                           "MPCalContext (gates, goroutine states), the same for MCNestedGen (outer context + resources.NewNested around "
                           "2-3 gated inner contexts, each of which may end by itself at any point), plus seeded free-running races of Run/Stop over leaf, map, nested, "
                           "FD and TCP resources; every recorded execution folded by TLC into LifecycleObs.tla (verdicts) and "
                           "LifecycleTrace.tla (conformance to Lifecycle.tla)")
