"""C01 -- critical sections are atomic across every resource they touch.

spec/C01/CritSecOps.tla    sequential meaning of the operations per abstract resource kind
spec/C01/CritSec.tla       P-spec: abstract transactional store (store/work); also the GENERATOR:
                           TLC exports every labelled transition of the history-free graph
spec/C01/CritSecImpl.tla   M-spec: dirty set + per-resource snapshot protocol of Run/commit/abort,
                           checked by TLC to implement the P-spec (and to fail when broken)
spec/C01/CritSecObs.tla    P-level trace spec: folds recorded real-code executions, C01 as invariants (verdicts)
spec/C01/CritSecProto.tla  M-level trace spec: which resource methods Run called per attempt (drift only)
harness/cmd/c01drv         hand-built archetypes over REAL resources + fault-injecting decorators

Generation rule: for every abstract configuration G1..G6, walks from Init covering EVERY exported
edge (abstract state x operation / refusal / outcome) plus seeded random walks; every walk is
replayed on every concrete instantiation of its configuration; after every attempt a probe attempt
reads every cell through the interface and fails.
"""
import collections, concurrent.futures, json, os, random, re, time
import vcommon as V

ID = "C01"

# abstract configuration -> concrete instantiations: {abstract instance: (impl[, parameter, index])}
INST = {
    "G1": [
        ("mem", {"a": ("local",), "b": ("alocal",), "i": ("inchan",), "o": ("outchan",)}),
        ("maps", {"a": ("incmap", "m", 1), "b": ("incmap", "m", 2), "i": ("inchan",), "o": ("outchan",)}),
        ("tcp", {"a": ("local",), "b": ("hashmap", "h", 1), "i": ("tcpin", "net", 1), "o": ("tcpout", "net", 2)}),
        ("shfile", {"a": ("shared",), "b": ("file", "fs", 0), "i": ("inchan",), "o": ("outchan",)}),
        ("2pcnest", {"a": ("twopc",), "b": ("nested",), "i": ("inchan",), "o": ("tcpout", "net", 2)}),
    ],
    "G2": [
        ("alocal", {"f": ("alocal",), "a": ("local",), "o": ("outchan",)}),
        ("shared", {"f": ("shared",), "a": ("file", "fs", 0), "o": ("outchan",)}),
        ("mapfn", {"f": ("incmap", "m", 1), "a": ("local",), "o": ("outchan",)}),
        ("reffn", {"f": ("local",), "a": ("hashmap", "h", 1), "o": ("tcpout", "net", 2)}),
    ],
    "G3": [("raft", {"g": ("plog",), "a": ("local",), "c": ("custin",)})],
    "G4": [
        ("crdt", {"n": ("crdt",), "a": ("local",), "o": ("outchan",)}),
        ("crdt2pc", {"n": ("crdt",), "a": ("twopc",), "o": ("tcpout", "net", 2)}),
    ],
    "G5": [
        ("rlx", {"a": ("local",), "i": ("rlxin", "net", 1), "x": ("rlxout", "net", 2)}),
        ("sout", {"a": ("local",), "i": ("inchan",), "x": ("singleout",)}),
        ("soutfull", {"a": ("incmap", "m", 1), "i": ("inchan",), "x": ("singleout0",)}),
    ],
    "G6": [
        ("plocal", {"p": ("pers-local",), "a": ("local",), "i": ("inchan",)}),
        ("pshared", {"p": ("pers-shared",), "a": ("incmap", "m", 1), "i": ("tcpin", "net", 1)}),
    ],
}
KINDS = {
    "G1": {"a": "cell", "b": "cell", "i": "in", "o": "out"},
    "G2": {"f": "fn", "a": "cell", "o": "out"},
    "G3": {"g": "log", "a": "cell", "c": "cin"},
    "G4": {"n": "ctr", "a": "cell", "o": "out"},
    "G5": {"a": "cell", "i": "in", "x": "rout"},
    "G6": {"p": "pcell", "a": "cell", "i": "in"},
}
INIT = {"cell": [0], "pcell": [0, 0], "fn": [0, 0], "in": [], "cin": [], "out": [], "rout": [], "log": [], "ctr": [0]}
REAL_PRE = {"twopc", "nested"}          # implementations that can refuse a PreCommit themselves
SLOW = {"tcp", "2pcnest", "reffn", "crdt2pc", "rlx", "pshared"}   # instantiations with sockets: fewer, longer walks


# --------------------------------------------------------------------------- graph -> walks

class Graph:
    def __init__(self, path):
        self.sid, self.edges, self.out = {}, [], collections.defaultdict(list)
        with open(path) as f:
            for line in f:
                line = line.strip()
                if not line:
                    continue
                e = json.loads(line)
                if isinstance(e, str):
                    e = json.loads(e)
                a, b = self._id(e["from"]), self._id(e["to"])
                k = len(self.edges)
                self.edges.append((a, b, e["idle"], e["act"]))
                self.out[a].append(k)
        self.init = self.edges[0][0]
        self.idle = {self.init} | {b for (_, b, idle, _) in self.edges if idle}
        # owner idle state and path (edge list) of every open state
        self.owner, self.path = {}, {}
        for i in self.idle:
            self.owner[i], self.path[i] = i, []
            todo = [i]
            while todo:
                s = todo.pop()
                for k in self.out[s]:
                    a, b, idle, act = self.edges[k]
                    if not idle and b not in self.path and b not in self.idle:
                        self.owner[b], self.path[b] = i, self.path[s] + [k]
                        todo.append(b)
        # quotient graph over idle states: one representative edge path per (I, J)
        self.hop = collections.defaultdict(dict)
        for k, (a, b, idle, act) in enumerate(self.edges):
            if idle and a in self.path:
                i = self.owner[a]
                if b != i and b not in self.hop[i]:
                    self.hop[i][b] = self.path[a] + [k]

    def _id(self, s):
        if s not in self.sid:
            self.sid[s] = len(self.sid)
        return self.sid[s]

    def route(self, src, targets):
        """edge path over the quotient graph from idle state src to the nearest idle state in targets"""
        if src in targets:
            return []
        prev, todo = {src: None}, collections.deque([src])
        while todo:
            i = todo.popleft()
            for j, p in self.hop[i].items():
                if j not in prev:
                    prev[j] = (i, p)
                    if j in targets:
                        out = []
                        while prev[j] is not None:
                            i2, p2 = prev[j]
                            out = p2 + out
                            j = i2
                        return out
                    todo.append(j)
        return None

    def finish(self, cur, walk, uncovered, rng):
        """complete the attempt in flight: prefer uncovered edges, otherwise end it"""
        while cur not in self.idle:
            ks = self.out[cur]
            fresh = [k for k in ks if k in uncovered]
            if fresh:
                k = rng.choice(fresh)
            else:
                ends = [k for k in ks if self.edges[k][2] and self.edges[k][3].get("t") == "end" and
                        self.edges[k][3].get("how") in ("commit", "body")]
                k = rng.choice(ends or [k for k in ks if self.edges[k][2]])
            walk.append(k)
            uncovered.discard(k)
            cur = self.edges[k][1]
        return cur

    def cover(self, rng, max_att):
        uncovered = set(range(len(self.edges)))
        pend = collections.defaultdict(list)
        for k, (a, b, idle, act) in enumerate(self.edges):
            if a in self.owner:
                pend[self.owner[a]].append(k)
        for i in pend:
            rng.shuffle(pend[i])
        walks = []
        while uncovered:
            cur, walk, natt = self.init, [], 0
            progressed = False
            while natt < max_att:
                while pend[cur] and pend[cur][-1] not in uncovered:
                    pend[cur].pop()
                if not pend[cur]:
                    targets = set()
                    for i in list(pend):
                        while pend[i] and pend[i][-1] not in uncovered:
                            pend[i].pop()
                        if pend[i]:
                            targets.add(i)
                    if not targets:
                        break
                    r = self.route(cur, targets)
                    if r is None:
                        break
                    for k in r:
                        walk.append(k)
                        uncovered.discard(k)
                        cur = self.edges[k][1]
                    natt += sum(1 for k in r if self.edges[k][3].get("t") == "begin")
                    continue
                k = pend[cur].pop()
                seg = self.path[self.edges[k][0]] + [k]
                for j in seg:
                    walk.append(j)
                    uncovered.discard(j)
                cur = self.finish(self.edges[k][1], walk, uncovered, rng)
                natt += 1
                progressed = True
            if walk:
                walks.append(walk)
            if not progressed:
                break
        return walks, len(uncovered)

    def random_walk(self, rng, natt):
        cur, walk, n = self.init, [], 0
        while n < natt:
            ks = self.out[cur]
            if not ks:
                break
            k = rng.choice(ks)
            walk.append(k)
            if self.edges[k][3].get("t") == "begin":
                n += 1
            cur = self.edges[k][1]
        cur = self.finish(cur, walk, set(), rng)
        return walk


# --------------------------------------------------------------------------- walk -> concrete case

def concretize(g, walk, cfg, inst_name, mapping, rng, cid):
    kinds = KINDS[cfg]
    res = []
    for name in sorted(kinds):
        m = mapping[name]
        r = {"name": name, "kind": kinds[name], "impl": m[0], "init": INIT[kinds[name]]}
        if len(m) > 1:
            r["grp"], r["idx"] = m[1], m[2]
        res.append(r)
    impl = {name: mapping[name][0] for name in kinds}
    probe_ops = [{"r": n, "o": "rd", "i": 0, "a": []} for n in sorted(kinds)
                 if kinds[n] in ("cell", "pcell", "fn", "log", "ctr")]
    serial = [100]

    def fresh(n):
        out = list(range(serial[0] + 1, serial[0] + 1 + n))
        serial[0] += n
        return out

    steps, cur = [], None
    for k in walk:
        a, b, idle, act = g.edges[k]
        t = act["t"]
        if t == "feed":
            steps.append({"t": "feed", "r": act["r"], "a": fresh(1)})
        elif t == "begin":
            cur = {"t": "att", "ops": [], "end": "commit"}
        elif t == "op":
            op = {"r": act["r"], "o": act["o"], "i": act["i"], "a": list(act["a"])}
            kd = kinds[act["r"]]
            if kd in ("out", "rout") or (kd == "log" and act["o"] == "wr"):
                op["a"] = fresh(len(act["a"]))
            inj = act.get("inj", "")
            if inj and impl[act["r"]] == "alocal":   # archetype locals cannot be decorated: the body fails instead
                cur["end"] = "body"
                if inj == "post":
                    cur["ops"].append(op)
            else:
                if inj:
                    op["inj"] = inj
                cur["ops"].append(op)
        elif t == "end":
            how = act["how"]
            if how == "pre":
                if impl[act["r"]] == "alocal":
                    cur["end"] = "body"
                else:
                    cur["end"], cur["pr"], cur["pm"] = "pre", act["r"], act["m"]
                    if impl[act["r"]] in REAL_PRE and rng.random() < 0.5:
                        cur["pm"] = "real"      # the resource itself refuses (2PC replica rejects / nested archetype answers "aborted")
                        if impl[act["r"]] == "nested" and rng.random() < 0.6:
                            # ... and answers ("aborted", or the ordinary ack) only after the resource's own timeout has expired
                            cur["pm"] = rng.choice(["late", "lateack"])
            else:
                cur["end"] = how
        if idle and t != "feed":
            steps.append(cur)
            if probe_ops:
                steps.append({"t": "att", "ops": probe_ops, "end": "body", "probe": True})
            cur = None
    return {"id": cid, "cfg": cfg, "inst": inst_name, "res": res, "steps": steps}


# --------------------------------------------------------------------------- the check

INVS = ["AbortInvisible", "CommitAll", "ReadOwnWrite", "NoPhantomSend", "RedeliverySameOrder",
        "CommitAfterFailure", "NoPanic"]


LEAN = ["-XX:TieredStopAtLevel=1", "-XX:ParallelGCThreads=2"]   # many short JVMs side by side


def set_cfg(path, **kv):
    s = open(path).read()
    for k, v in kv.items():
        s = re.sub(r"(?m)^(\s*%s\s*=\s*).*$" % k, lambda m: m.group(1) + str(v), s)
    open(path, "w").write(s)


def run(chk):
    quick = chk.quick()
    rng = random.Random(chk.seed)
    t0 = time.time()
    timing = chk.notes.setdefault("timing_s", {})
    work = os.path.join(chk.tmp, "spec")
    V.copy_specs(os.path.join(V.SPEC, ID), work)

    gens = sorted(INST)
    if not chk.replay:   # (--replay re-executes one recorded case only)
        # ---- 1. design level (TLC, exhaustive): the snapshot/dirty-set mechanism implements the abstract store
        design = [("MCCritSecImplStr", True), ("MCCritSecImplMix", True)] if quick else \
                 [("MCCritSecImplStr", True), ("MCCritSecImplMix", True), ("MCCritSecImplAll", True)]
        broken = [("MCCritSecImplNoDirtyRead", False), ("MCCritSecImplCommitAfterPreFail", False)]
        if not quick:
            set_cfg(os.path.join(work, "MCCritSecImplMix.cfg"), MaxOps=3)
        for gname in gens:
            set_cfg(os.path.join(work, "MCCritSec%s.cfg" % gname), MaxOps=2 if quick else 3)

        def tlc_job(job):
            kind, name = job
            if kind == "gen":
                return job, V.tlc(work, "MCCritSec", cfg="MCCritSec%s.cfg" % name, workers=1, timeout=1500, deadlock=False, jvm=LEAN)
            return job, V.tlc(work, "MCCritSecImpl", cfg=name + ".cfg", workers=2 if quick else 4, timeout=2400, deadlock=False, jvm=LEAN)

        jobs = [("gen", g) for g in gens] + [("impl", n) for n, _ in design + broken]
        results = {}
        with concurrent.futures.ThreadPoolExecutor(max_workers=len(jobs)) as ex:
            for job, res in ex.map(tlc_job, jobs):
                results[job] = res
        for n, _ in design:
            chk.add_tlc("%s exhaustive (TypeOK, IdleClean, InputPrefix, ImplAgrees)" % n, results[("impl", n)])
        chk.exhaustive = all(results[("impl", n)].ok for n, _ in design)
        for n, _ in broken:
            r = results[("impl", n)]
            chk.tlc_jobs.append(r.summary(n + " (vacuity: the broken mechanism MUST violate ImplAgrees)"))
            if not (r.violation and "ImplAgrees" in r.violation):
                chk.inconclusive.append("vacuity check %s did not produce the expected ImplAgrees counterexample" % n)
        for gname in gens:
            chk.add_tlc("MCCritSec%s generator graph (TypeOK, IdleClean, InputPrefix, AtomicEnd)" % gname, results[("gen", gname)])
            if not os.path.exists(os.path.join(work, "edges-%s.ndjson" % gname)):
                raise V.Inconclusive("TLC did not export the graph of %s" % gname)
        if chk.inconclusive:
            return chk.finish(rule="(design-level TLC jobs failed)")

    timing["tlc_design_and_generator"] = round(time.time() - t0, 1); t0 = time.time()
    # ---- 2. cases
    cases, gen_note = [], {}
    if chk.replay:
        rp = json.load(open(chk.replay))
        cases = [rp["case"]["case"]]
        chk.notes["replay_of"] = rp.get("key")
    else:
        for gi, gname in enumerate(gens):
            g = Graph(os.path.join(work, "edges-%s.ndjson" % gname))
            walks, left = g.cover(random.Random(chk.seed * 7919 + 1), max_att=12)
            long_walks, _ = g.cover(random.Random(chk.seed * 7919 + 2), max_att=60)
            nrand = 4 if quick else 30
            rwalks = [g.random_walk(rng, 25 if quick else 40) for _ in range(nrand)]
            gen_note[gname] = {"states": len(g.sid), "edges": len(g.edges), "edges_not_covered": left,
                               "cover_walks": len(walks), "random_walks": len(rwalks)}
            if left:
                chk.gaps.append("%s: %d exported edges are unreachable by walks from Init" % (gname, left))
            # vacuity: every way an attempt can end must occur in the graph, for every resource of the configuration
            labels = collections.Counter()
            for (_, _, _, act) in g.edges:
                if act["t"] == "op":
                    labels["op:%s:%s" % (act["r"], act.get("inj") or "ok")] += 1
                elif act["t"] == "end":
                    labels["end:%s:%s:%s" % (act["how"], act.get("r", ""), act.get("m", ""))] += 1
                else:
                    labels[act["t"]] += 1
            need = ["begin", "end:commit::", "end:body::"]
            for rn, kd in KINDS[gname].items():
                need.append("op:%s:ok" % rn)
                need.append("op:%s:pre" % rn)
                if kd != "rout":
                    need += ["op:%s:post" % rn, "end:pre:%s:pre" % rn, "end:pre:%s:post" % rn]
                if kd in ("in", "cin"):
                    need.append("feed")
            missing = [n for n in need if not labels[n]]
            gen_note[gname]["edge_labels"] = len(labels)
            if missing:
                chk.inconclusive.append("generator %s is vacuous: no edge labelled %s" % (gname, missing))
            # the primary instantiation (rotates with the seed) replays the complete edge cover,
            # the others a seeded sample of it; every instantiation gets the random walks
            primary = (chk.seed + gi) % len(INST[gname])
            frac = 5 if quick else 4
            for ii, (iname, mapping) in enumerate(INST[gname]):
                ws = long_walks if iname in SLOW else walks
                if ii != primary:
                    off = rng.randrange(frac)
                    ws = [w for n, w in enumerate(ws) if n % frac == off]
                for n, w in enumerate(ws):
                    cases.append(concretize(g, w, gname, iname, mapping, rng, "%s.%s.c%d" % (gname, iname, n)))
                for n, w in enumerate(rwalks if iname not in SLOW else rwalks[: max(2, nrand // 4)]):
                    cases.append(concretize(g, w, gname, iname, mapping, rng, "%s.%s.r%d" % (gname, iname, n)))
            gen_note[gname]["primary"] = INST[gname][primary][0]
    chk.notes["generator"] = gen_note
    casefile = os.path.join(chk.tmp, "cases.ndjson")
    with open(casefile, "w") as f:
        for c in cases:
            f.write(json.dumps(c) + "\n")
    byid = {c["id"]: c for c in cases}

    timing["walks_and_cases"] = round(time.time() - t0, 1); t0 = time.time()
    # ---- 3. run them on the real code
    drv = V.build_driver("c01drv", chk.bindir)
    timing["build_driver"] = round(time.time() - t0, 1); t0 = time.time()
    out = os.path.join(chk.tmp, "trace.ndjson")
    rc, o = V.run([drv, "-cases", casefile, "-out", out, "-par", "12"], timeout=1500 if quick else 3000)
    if rc != 0 or not os.path.exists(out):
        raise V.Inconclusive("c01drv failed rc=%s: %s" % (rc, o[-3000:]))
    timing["driver"] = round(time.time() - t0, 1); t0 = time.time()
    lines = V.read_jsonl(out)
    segs = V.split_cases(lines)
    if len(segs) != len(cases):
        raise V.Inconclusive("driver recorded %d of %d cases" % (len(segs), len(cases)))
    for s in segs:
        for ln in s:
            if ln.get("e") in ("watchdog", "setup"):
                chk.inconclusive.append("case %s: %s" % (s[0].get("id"), ln.get("what") or ("set-up failed: %s" % ln.get("msg"))))
                break
    atts = [ln for ln in lines if ln.get("e") == "att"]
    attempts = len(atts)
    chk.notes["cases"] = len(cases)
    chk.notes["attempts_recorded"] = attempts
    chk.notes["operations_recorded"] = sum(len(a["ops"]) for a in atts)
    chk.notes["attempts_by_outcome"] = dict(collections.Counter(a["out"] for a in atts))
    ref = collections.Counter()
    for a in atts:
        if a["fail"]:
            ref["%s/%s" % (a["fail"], a.get("failm", ""))] += 1
        for o in a["ops"]:
            if not o["ok"]:
                ref["op/%s" % (o.get("inj") or "real")] += 1
    chk.notes["refusals_recorded"] = dict(ref)
    chk.notes["cases_by_instantiation"] = dict(collections.Counter("%s/%s" % (c["cfg"], c["inst"]) for c in cases))

    # ---- 4. verdicts: TLC folds every recorded execution into CritSecObs.tla (C01 as invariants) and,
    #         in the same pass, checks conformance to Run's protocol (ProtoOK of CritSecProto.tla: drift only)
    chunks = 6 if quick else 12
    both = V.fold_traces(work, "CritSecProto", "CritSecProto.cfg", segs, timeout=2400, chunks=chunks, max_rounds=3,
                         jvm=["-XX:ParallelGCThreads=2"])
    chk.states += both["states"]; chk.transitions += both["transitions"]
    drifted = [r for r in both["rejected"] if "ProtoOK" in r["text"]]
    obs = both
    chk.notes["m_level_traces_accepted"] = both["accepted"] if not drifted else "(drift: see drift_events)"
    for r in drifted[:20]:
        chk.drift.append({"spec": "CritSecProto.tla", "case": r["seg"][0].get("id"), "event": r["line_in_seg"],
                          "text": r["text"], "calls": r["seg"][max(0, r["line_in_seg"] - 1)].get("calls")})
    if drifted:   # the code left the modelled mechanism: judge everything again at property level only
        obs = V.fold_traces(work, "CritSecObs", "CritSecObs.cfg", segs, timeout=2400, chunks=chunks, max_rounds=4,
                            jvm=["-XX:ParallelGCThreads=2"])
        chk.states += obs["states"]; chk.transitions += obs["transitions"]
    chk.traces += obs["accepted"]
    for e in obs["errors"]:
        chk.inconclusive.append("CritSecObs: " + e)
    for r in obs["rejected"]:
        seg = r["seg"]
        cid = seg[0].get("id")
        inv = next((n for n in INVS if n in r["text"]), "rejected")
        # ask TLC once more, on this case alone, for the resource and operation it blames
        rname, opno = "", 0
        one = os.path.join(chk.tmp, "one")
        V.copy_specs(work, one)
        with open(os.path.join(one, "trace.ndjson"), "w") as f:
            for ln in seg:
                f.write(json.dumps(ln) + "\n")
        r1 = V.tlc(one, "CritSecObs", cfg="CritSecObs.cfg", workers=1, timeout=600, deadlock=False)
        m = re.findall(r'badr = "(\w*)"', r1.out)
        if m:
            rname = m[-1]
        m = re.findall(r"badop = (\d+)", r1.out)
        if m:
            opno = int(m[-1])
        ev = seg[max(0, min(len(seg) - 1, r["line_in_seg"] - 1))]
        impl = seg[0].get("impl", {})
        what = ("real execution of case %s (%s/%s) violates %s at recorded event %d%s%s: %s" %
                (cid, seg[0].get("cfg"), seg[0].get("inst"), inv, r["line_in_seg"],
                 (", resource %s (%s)" % (rname, impl.get(rname))) if rname else "",
                 (", operation %d" % opno) if opno else "", json.dumps(ev)[:400]))
        key = "C01:%s:cfg=%s/%s:res=%s:impl=%s" % (inv, seg[0].get("cfg"), seg[0].get("inst"), rname or "-",
                                                     impl.get(rname, "-"))
        if inv == "NoPanic":
            msg = next((ln.get("msg", "") for ln in seg if ln.get("e") == "panic"), "")
            key = "C01:NoPanic:cfg=%s/%s:panic=%s" % (seg[0].get("cfg"), seg[0].get("inst"),
                                                        re.sub(r"[^A-Za-z0-9' ]+", " ", msg)[:60].strip())
        chk.violation(key, what, {"case": byid.get(cid), "recorded": seg[: r["line_in_seg"] + 1], "tlc": r["text"]})

    timing["fold"] = round(time.time() - t0, 1)
    for s in (segs[:1] + segs[len(segs) // 2: len(segs) // 2 + 1] + segs[-1:]):
        chk.sample({"case": s[0].get("id"), "impl": s[0].get("impl"), "events": s[1:8]})
    chk.assumptions += [
        "TLC/SANY, Json and CSV community modules",
        "the driver's hand-built archetype issues exactly the recorded iface.Read/iface.Write calls (it is modelled on generated code)",
        "out-of-band observers: Persistable.GetState, ReadArchetypeResourceLocal, files, badger, Go channels, the peer's Mailboxes resource, TwoPCReceiver GetState",
        "a committed message that does not reach the peer mailbox within 30 s is reported as INCONCLUSIVE, not as a violation",
        "documented exclusions are never scheduled: a failure after a successful relaxed-mailbox / SingleOutputChan send; crash recovery",
    ]
    chk.gaps += ["Persistent: writes through Index are not persisted (persistence only; not judged)",
                 "PersistentLog: database contents are not compared, only the resource's value",
                 "CRDT with remote peers and TwoPC with competing proposers belong to C13/C11",
                 "Call/Return inside an aborted section (shared with C04)"]
    return chk.finish(rule="walks from Init covering every TLC-exported edge of CritSec.tla (per configuration %s, MaxOps=%d) "
                           "plus seeded random walks, each replayed on every concrete instantiation (%d cases, %d attempts); "
                           "every recorded execution folded by TLC into CritSecObs.tla" %
                           (",".join(gens), 2 if quick else 3, len(cases), attempts))
