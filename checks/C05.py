"""C05 -- value equality, hashing, printing and wire encoding are coherent.

spec/C05/ValTerms.tla      constructor universe (copy of spec/C03/ValTerms.tla)
spec/C05/ValueLaws.tla     P-spec + M-spec of equality: classes, construction-order variants, pairs; TlcEq / MEq
spec/C05/MCValueLaws.*     design-level run: model of Equal = TLA+ equality up to the tuple/function split; export
spec/C05/ValueLawsObs.tla  verdict spec: the laws evaluated by TLC on the observations of the real library
harness/cmd/c05drv         records the observations (plain and, re-executed with PGO_TRACE_DIR, causal)
"""
import concurrent.futures
import json
import os
import re

import vcommon as V

JVM = ["-XX:ParallelGCThreads=2", "-XX:CICompilerCount=2"]   # many JVMs run side by side on a shared machine
PAIR_KEYS = {"eq": False, "eqr": False, "he": False, "ins": False, "fn": False, "hm": False, "im": False, "panic": ""}
VAL_KEYS = {"str": "", "mine": "", "alteq": False, "althe": False, "gerr": "", "gdec": "", "geq": False, "ghe": False,
            "gstr": "", "panic": ""}
CAUSAL_KEYS = {"wrapped": False, "weq": False, "whe": False, "deq": False, "dhe": False, "wstr": "", "dstr": "", "strip": False,
               "wins": False, "whm": False, "clock": False, "rewrap": False, "gwerr": "", "gwdec": "", "gweq": False,
               "gwhe": False, "gwclock": False, "gderr": "", "gddec": "", "gdeq": False, "gdhe": False, "gdclock": False,
               "panic": ""}
CLASS_KEYS = {"setlen": -1, "card": -1, "hmkeys": -1, "allfound": False, "gerr": "", "gsetlen": -1, "gseteq": False, "panic": ""}
CLOCK_KEYS = {"err": "", "same": False, "merge_comm": False, "panic": ""}
TEXT_FIELDS = {"Str": "str", "Dec": "gdec", "GStr": "gstr", "WStr": "wstr", "DStr": "dstr", "GW": "gwdec", "GD": "gddec"}


def cfg_text(tier, seed, start, nxt):
    return ('CONSTANTS\n  Tier = "%s"\n  Seed = %d\n  Start = %d\nINIT JInit\nNEXT %s\nCHECK_DEADLOCK FALSE\n'
            % (tier, seed, start, nxt))


def norm(rows, keys, idkey):
    out = []
    for r in rows:
        n = {idkey: r[idkey]}
        for k, d in keys.items():
            v = r.get(k, d)
            n[k] = d if v is None else v
        if "cls" in r:
            n["cls"] = r["cls"]
        out.append(n)
    return out


def write_govals(path, vals, causal, broken):
    """One definition per line; returns {line number: (operator, id)}. `broken` = {(op, id)} texts TLC could not
    read in an earlier attempt (replaced by a marker value)."""
    lines = ["---- MODULE GoVals ----", "(* generated: texts printed by the real library (String()) and by the driver's printer *)",
             "EXTENDS Integers, Sequences, FiniteSets, TLC"]
    where = {}
    table = {op: [] for op in TEXT_FIELDS}
    for op, field in TEXT_FIELDS.items():
        src = vals if op in ("Str", "Dec", "GStr") else causal
        for r in src:
            t = r.get(field, "")
            if not t or (op, r["id"]) in broken:
                t = '"<<no evaluable text>>"'
            t = t.replace("\n", " ")
            lines.append("%s%d == %s" % (op, r["id"], t))
            where[len(lines)] = (op, r["id"])
            table[op].append(r["id"])
    for op in TEXT_FIELDS:
        if table[op]:
            lines.append("%s(zi) == CASE " % op + " [] ".join("zi = %d -> %s%d" % (i, op, i) for i in table[op]) + " [] OTHER -> FALSE")
        else:
            lines.append("%s(zi) == FALSE" % op)
    lines.append("====")
    with open(path, "w") as f:
        f.write("\n".join(lines) + "\n")
    return where


def sany_clean(work, vals, causal, broken, cap=400):
    """Find every printed text SANY cannot read (one SANY run per unreadable text; only texts printed by the
    library can fail here). Adds them to `broken`."""
    if not vals and not causal:
        return
    d = os.path.join(work, "sany")
    os.makedirs(d, exist_ok=True)
    for _ in range(cap):
        where = write_govals(os.path.join(d, "GoVals.tla"), vals, causal, broken)
        rc, o = V.run(["java", "-XX:+UseSerialGC", "-XX:TieredStopAtLevel=1", "-cp", V.TLA_JAR, "tla2sany.SANY", "GoVals.tla"],
                      cwd=d, timeout=600)
        if rc == -9:
            raise V.Inconclusive("SANY timed out on GoVals")
        if "Semantic processing of module GoVals" in o and "*** Errors" not in o and "Fatal errors" not in o \
                and "Could not parse" not in o:
            return
        m = re.search(r"line (\d+), col", o, re.I)
        if not m or int(m.group(1)) not in where or where[int(m.group(1))] in broken:
            raise V.Inconclusive("SANY rejects GoVals for a reason not located in a printed text: %s" % o[-1500:])
        broken.add(where[int(m.group(1))])
    raise V.Inconclusive("more than %d printed texts are unreadable" % cap)


def judge(specdir, root, name, tier, seed, nxt, files, vals, causal, nitems, timeout):
    """Runs one phase of ValueLawsObs. Returns ({(phase, id): (verdict, drift)}, [TLCResult], {(op,id)} unreadable texts)."""
    work = os.path.join(root, name)
    V.copy_specs(specdir, work)
    for fn, rows in files.items():
        with open(os.path.join(work, fn), "w") as f:
            for r in rows:
                f.write(json.dumps(r) + "\n")
    verdicts, results, broken = {}, [], set()
    start, order = 1, []
    sany_clean(work, vals, causal, broken)
    for _ in range(16):
        where = write_govals(os.path.join(work, "GoVals.tla"), vals, causal, broken)
        with open(os.path.join(work, "ValueLawsObs.cfg"), "w") as f:
            f.write(cfg_text(tier, seed, start, nxt))
        res = V.tlc(work, "ValueLawsObs", cfg="ValueLawsObs.cfg", workers=1, timeout=timeout, deadlock=False, extra=["-nowarning"], heap="4g", jvm=JVM)
        results.append(res)
        n = 0
        for m in re.finditer(r'<<"V", "([a-z]+)", (\d+), "([A-Z_]+)", "([A-Z-]+)">>', res.out):
            verdicts[(m.group(1), int(m.group(2)))] = (m.group(3), m.group(4))
            order.append((m.group(1), int(m.group(2))))
            n += 1
        done = start - 1 + n
        if done >= nitems:
            return verdicts, results, broken
        if res.timed_out:
            raise V.Inconclusive("ValueLawsObs %s timed out after %d of %d observations" % (name, done, nitems))
        # (a) SANY could not read a printed text: locate the definition by its line in GoVals
        m = re.search(r"line (\d+), col(?:umn)? \d+[^\n]*\n?[^\n]*(?:module|file) GoVals", res.out) or \
            (re.search(r"(?:module|file) GoVals", res.out) and re.search(r"line (\d+), col", res.out))
        if n == 0 and m and int(m.group(1)) in where:
            broken.add(where[int(m.group(1))])
            continue
        # (b) TLC could not evaluate a text while judging observation done+1: find which texts that observation uses
        loc = re.findall(r"[Ll]ine (\d+), col(?:umn)? \d+ to line \d+, col(?:umn)? \d+ (?:of module|in) GoVals", res.out)
        hit = [where[int(x)] for x in loc if int(x) in where]
        if hit:
            new = [h for h in hit if h not in broken]
            if not new:
                raise V.Inconclusive("ValueLawsObs %s: cannot get past an unreadable text: %s" % (name, res.out[-1500:]))
            broken.update(new)
            start = done + 1
            continue
        raise V.Inconclusive("ValueLawsObs %s failed after %d of %d observations: %s" % (name, done, nitems, res.out[-2000:]))
    raise V.Inconclusive("ValueLawsObs %s: too many unreadable texts" % name)


def run(chk):
    specsrc = os.path.join(V.SPEC, "C05")
    quick = chk.quick()
    tier, seed = chk.tier, chk.seed
    replay = None
    if chk.replay:
        replay = json.load(open(chk.replay))
        tier, seed = replay.get("tier", tier), int(replay.get("seed", seed))
    work = os.path.join(chk.tmp, "spec")
    V.copy_specs(specsrc, work)

    # 1. design level: universe, pairs; the model of Equal against TLC's = on every pair of a class
    with open(os.path.join(work, "MCValueLaws.cfg"), "w") as f:
        f.write('CONSTANTS\n  Tier = "%s"\n  Seed = %d\nINIT LInit\nNEXT LNext\n'
                'INVARIANTS ModelIsTlaEqualityUpToSeqFn ModelSound PrintCanonical\nCHECK_DEADLOCK FALSE\n' % (tier, seed))
    pool = concurrent.futures.ThreadPoolExecutor(max_workers=4)
    build = pool.submit(V.build_driver, "c05drv", chk.bindir)
    res = V.tlc(work, "MCValueLaws", cfg="MCValueLaws.cfg", workers=1, timeout=1500 if quick else 3000, deadlock=False,
                extra=["-nowarning"], heap="4g", jvm=JVM)
    chk.add_tlc("MCValueLaws (%s): ModelIsTlaEqualityUpToSeqFn, ModelSound, PrintCanonical on every pair" % tier, res)
    if not res.ok or not os.path.exists(os.path.join(work, "vals.ndjson")):
        raise V.Inconclusive("design-level TLC run failed: %s" % (res.error or res.violation or res.out[-1500:]))
    chk.exhaustive = True
    uni = {r["id"]: r for r in V.read_jsonl(os.path.join(work, "vals.ndjson"))}
    pairs = {r["p"]: r for r in V.read_jsonl(os.path.join(work, "pairs.ndjson"))}
    chk.notes["values"] = len(uni)
    chk.notes["pairs"] = len(pairs)
    chk.notes["classes"] = sorted({r["cls"] for r in uni.values()})

    # 2. the real library: plain, then re-executed with PGO_TRACE_DIR for causal wrapping
    drv = build.result()
    obs = os.path.join(chk.tmp, "obs")
    os.makedirs(os.path.join(obs, "trace"), exist_ok=True)
    for mode, env in (("plain", {"PGO_TRACE_DIR": ""}), ("causal", {"PGO_TRACE_DIR": os.path.join(obs, "trace")})):
        rc, o = V.run([drv, "-mode", mode, "-vals", os.path.join(work, "vals.ndjson"), "-pairs", os.path.join(work, "pairs.ndjson"),
                       "-out", obs], timeout=1800, env=env)
        if rc != 0:
            raise V.Inconclusive("c05drv -mode %s failed rc=%s: %s" % (mode, rc, o[-1500:]))
    pairs_go = norm(V.read_jsonl(os.path.join(obs, "pairs_go.ndjson")), PAIR_KEYS, "p")
    vals_go = norm(V.read_jsonl(os.path.join(obs, "vals_go.ndjson")), VAL_KEYS, "id")
    causal_go = norm(V.read_jsonl(os.path.join(obs, "causal_go.ndjson")), CAUSAL_KEYS, "id")
    classes_go = norm(V.read_jsonl(os.path.join(obs, "classes_go.ndjson")), CLASS_KEYS, "cls")
    clocks_go = norm(V.read_jsonl(os.path.join(obs, "clocks_go.ndjson")), CLOCK_KEYS, "n")
    for r in vals_go + causal_go + classes_go + clocks_go:
        for k in ("gerr", "gwerr", "gderr", "err"):
            if r.get(k) == "stall":
                raise V.Inconclusive("gob round trip stalled (no error, no result) in the driver: %s" % r)
    if len(pairs_go) != len(pairs) or len(vals_go) != len(uni) or len(causal_go) != len(uni):
        raise V.Inconclusive("driver output incomplete")

    # 3. TLC evaluates the laws on the observations
    jroot = os.path.join(chk.tmp, "judge")
    nch = 1 if quick else 6
    files0 = {"pairs_go.ndjson": [], "vals_go.ndjson": [], "causal_go.ndjson": [], "classes_go.ndjson": [], "clocks_go.ndjson": []}
    jobs = []
    for i in range(nch):   # pairs (+ classes and clocks in the first chunk)
        part = pairs_go[i::nch]
        files = dict(files0, **{"pairs_go.ndjson": part})
        if i == 0:
            files.update({"classes_go.ndjson": classes_go, "clocks_go.ndjson": clocks_go})
        jobs.append(("pairs%d" % i, files, [], [], len(part) + (len(classes_go) + len(clocks_go) if i == 0 else 0)))
    jobs.append(("values", dict(files0, **{"vals_go.ndjson": vals_go, "causal_go.ndjson": causal_go}), vals_go, causal_go,
                 len(vals_go) + len(causal_go)))
    futs = [pool.submit(judge, work, jroot, n, tier, seed, "JNext", files, v, c, cnt, 2400 if quick else 6000)
            for n, files, v, c, cnt in jobs]
    verdicts, broken = {}, set()
    for (n, *_), fu in zip(jobs, futs):
        v, ress, br = fu.result()
        verdicts.update(v)
        broken |= br
        for r_ in ress:
            chk.tlc_jobs.append(r_.summary("ValueLawsObs " + n))
            chk.states += r_.distinct
            chk.transitions += r_.generated

    # 4. report
    counts, groups, drift = {}, {}, 0
    vgo = {r["id"]: r for r in vals_go}
    cgo = {r["id"]: r for r in causal_go}
    for (phase, i), (v, d) in verdicts.items():
        counts[phase + ":" + v] = counts.get(phase + ":" + v, 0) + 1
        if d == "DRIFT":
            drift += 1
        if v == "OK":
            continue
        if phase == "pair":
            p = pairs[i]
            cls = uni[p["i"]]["cls"] + ("" if p["same"] else "," + uni[p["j"]]["cls"])
            case = {"x": uni[p["i"]]["txt"], "y": uni[p["j"]]["txt"], "observed": [g for g in pairs_go if g["p"] == i][0]}
        elif phase in ("val", "causal"):
            cls = uni[i]["cls"]
            case = {"value": uni[i]["txt"], "term": uni[i]["term"], "observed": (vgo if phase == "val" else cgo)[i]}
        elif phase == "class":
            cls = classes_go[i - 1]["cls"]
            case = {"class": cls, "observed": classes_go[i - 1]}
        else:
            cls = "vclock"
            case = {"observed": [g for g in clocks_go if g["n"] == i][0]}
        key = "C05:%s:%s:cls=%s" % (phase, v.lower().replace("_", "-"), cls)
        groups.setdefault(key, []).append(case)
    for op, i in sorted(broken):
        phase = "val" if op in ("Str", "Dec", "GStr") else "causal"
        key = "C05:%s:printed-form-is-not-a-tla-expression:cls=%s" % (phase, uni[i]["cls"])
        src = (vgo if phase == "val" else cgo)[i]
        groups.setdefault(key, []).append({"value": uni[i]["txt"], "text": src.get(TEXT_FIELDS[op]), "which": op})
    chk.traces = sum(c for k, c in counts.items() if k.endswith(":OK"))
    chk.notes["verdict_counts"] = counts
    chk.notes["pairs_conforming_to_model_of_Equal"] = sum(1 for (ph, _), (_, d) in verdicts.items() if ph == "pair" and d == "CONFORMS")
    if drift:
        chk.drift.append({"spec": "ValueLaws.tla MEq", "pairs": drift,
                          "note": "library Equal differs from the implementation-shaped model on these pairs"})
    for key in sorted(groups):
        if replay and key != replay["key"]:
            continue
        cs = groups[key]
        chk.violation(key, "%d observation(s), e.g. %s" % (len(cs), json.dumps(cs[0])[:400]), {"cases": cs[:5], "count": len(cs)})
    okp = [(ph, i) for (ph, i), (v, _) in sorted(verdicts.items()) if v == "OK"]
    for ph, i in okp[:: max(1, len(okp) // 5)][:5]:
        if ph == "pair":
            chk.sample({"pair": [uni[pairs[i]["i"]]["txt"], uni[pairs[i]["j"]]["txt"]], "observed": [g for g in pairs_go if g["p"] == i][0]})
        elif ph == "val":
            chk.sample({"value": uni[i]["txt"], "String()": vgo[i]["str"], "decoded": vgo[i]["gdec"]})
    chk.assumptions += [
        "TLC/SANY/Json module; TLC's = is the equality oracle inside a class of mutually comparable values",
        "binding step: TLC parses and evaluates every text printed by the library (String()) and by the driver's printer for "
        "decoded values, and compares TLC's own normalised printed forms (PrintCanonical is checked at design level)",
        "the literal -2147483648 printed by the library is rewritten to ((-2147483647) - 1): TLC's parser cannot read it",
        "strings are printable ASCII; the zero Value (defaultInitValue) is outside the universe",
    ]
    chk.gaps += ["CRDT resources (gcounter, aworset, lww) reach these laws through hashmap.HashMap and tla.Value only; their own "
                 "merge laws are C12", "transitivity is inherited from TLC's = through agreement on every pair of a class"]
    return chk.finish(rule="universe = %d constructor terms in %d classes (base terms x insertion-order variants, depth <= %s), "
                           "all unordered pairs inside a class + seeded cross-class pairs (%d) enumerated by TLC (ValueLaws.tla); "
                           "every pair/value/class observed on the real library (plain and with vector-clock wrapping) and judged "
                           "by TLC (ValueLawsObs.tla)" % (len(uni), len(chk.notes["classes"]), "2 (3 for sets/tuples)" if quick else "3", len(pairs)))
