"""C14 -- generated primary-backup store: replicas agree whenever the primary answers, and the
history of acknowledged client operations is linearizable.

spec: the repository's systems/pbkvs/pbkvs.tla (ConsistencyOK as written there; PerfectFD, crash-stop at label
boundaries by EXPLORE_FAIL) + spec/C09/KVLin.tla (linearizability of a recorded history decided by TLC as a search).
design level: TLC exhaustive on the shipped spec for the instance sizes that finish, simulation for 3-4 replicas.
binding: the generated archetypes of systems/pbkvs/pbkvs.go (AReplica, AClient) run (a) from every state of the
complete state graph on the small instances and (b) under the real MPCalContext.Run behind the scheduler gate with
seeded schedules and crash choices on 2-4 replicas / 1-3 clients; TLC evaluates ConsistencyOK in every real-code
state; client histories (invocation = the client takes a request, response = it accepts the answer with its request
id) are judged by TLC on KVLin.tla. TLC simulation behaviours of pbkvs.tla are replayed through the generated code
(S->I) and their histories judged the same way.
"""
import os
import vcommon as V
import tracegen as T
import sysrun as S


def run(chk):
    quick = chk.quick()
    drv = V.build_driver("sysdrv", chk.bindir)
    tables = {t["name"]: t for t in S.load_tables()}
    t = dict(tables["pbkvs"])
    # C14's own plans (the table's bfs/random/guided entries are C02's)
    if quick:
        t["design"] = {"quick": [{"n": 1, "args": "clients=1,fail=1"}, {"n": 2, "args": "clients=1,fail=1", "workers": 8}]}
        t["bfs"] = {"quick": [{"n": 1, "args": "clients=2,fail=1"}]}
        t["random"] = {"quick": [{"n": 3, "runs": 72, "steps": 300, "policy": "biased", "args": "clients=2,fail=1"},
                                 {"n": 2, "runs": 12, "steps": 300, "policy": "biased", "args": "clients=3,fail=1"}]}
        guided = [(3, "clients=2,fail=1", 8, 100)]
    else:
        t["design"] = {"thorough": [{"n": 1, "args": "clients=3,fail=1"}, {"n": 2, "args": "clients=1,fail=1"},
                                    {"n": 2, "args": "clients=2,fail=1", "workers": 14, "timeout": 3000},
                                    {"n": 3, "args": "clients=1,fail=1", "workers": 14, "timeout": 3000},
                                    {"n": 3, "args": "clients=2,fail=1", "mode": "simulate", "budget": 240, "depth": 150},
                                    {"n": 4, "args": "clients=3,fail=1", "mode": "simulate", "budget": 240, "depth": 200}]}
        t["bfs"] = {"thorough": [{"n": 1, "args": "clients=2,fail=1"}, {"n": 2, "args": "clients=1,fail=1"}]}
        t["random"] = {"thorough": [{"n": 3, "runs": 150, "steps": 500, "policy": "biased", "args": "clients=2,fail=1"},
                                    {"n": 2, "runs": 80, "steps": 400, "policy": "biased", "args": "clients=3,fail=1"},
                                    {"n": 4, "runs": 80, "steps": 700, "policy": "biased", "args": "clients=3,fail=1"},
                                    {"n": 3, "runs": 30, "steps": 500, "policy": "random", "args": "clients=3,fail=0"},
                                    {"n": 1, "runs": 10, "steps": 200, "policy": "biased", "args": "clients=3,fail=1"}]}
        guided = [(3, "clients=2,fail=1", 60, 150), (2, "clients=3,fail=1", 40, 120), (4, "clients=2,fail=1", 30, 200)]

    # 1-3: ConsistencyOK at design level, on the complete Go graph and on seeded executions under Run
    stats = S.safety(chk, "C14", t, drv, chk.tier)
    chk.notes["consistency"] = stats

    # 4: linearizability of client histories (KVLin)
    lwork = os.path.join(chk.tmp, "lin")
    V.copy_specs(os.path.join(V.SPEC, "C09"), lwork)
    guards = [
        {"ops": [{"c": "1", "kind": "put", "key": "KEY1", "val": "VALUE1", "inv": 1, "ret": 2, "ok": True, "rval": "VALUE1"},
                 {"c": "1", "kind": "put", "key": "KEY1", "val": "VALUE2", "inv": 3, "ret": 4, "ok": True, "rval": "VALUE2"},
                 {"c": "2", "kind": "get", "key": "KEY1", "val": "", "inv": 5, "ret": 6, "ok": True, "rval": "VALUE1"}], "meta": "stale read", "anomalies": []},
        {"ops": [{"c": "1", "kind": "put", "key": "KEY1", "val": "VALUE1", "inv": 1, "ret": 2, "ok": True, "rval": "VALUE1"},
                 {"c": "2", "kind": "get", "key": "KEY1", "val": "", "inv": 3, "ret": 4, "ok": False, "rval": ""}], "meta": "lost update", "anomalies": []},
        {"ops": [{"c": "1", "kind": "put", "key": "KEY1", "val": "VALUE1", "inv": 1, "ret": 4, "ok": True, "rval": "VALUE1"},
                 {"c": "2", "kind": "get", "key": "KEY1", "val": "", "inv": 2, "ret": 3, "ok": True, "rval": "VALUE1"}], "meta": "concurrent: fine", "anomalies": []},
    ]
    probe = V.Check.__new__(V.Check)
    probe.__dict__.update(chk.__dict__)
    probe.states = probe.transitions = probe.traces = 0
    probe.inconclusive = []
    gbad = S.check_linearizable(probe, lwork, guards, chunks=1)
    chk.notes["checker_guard"] = {"rejected": sorted(gbad), "expected": [0, 1]}
    if sorted(gbad) != [0, 1] or probe.inconclusive:
        raise V.Inconclusive("KVLin guard histories not judged as expected: %s %s" % (gbad, probe.inconclusive))

    totals = {"histories": 0, "operations": 0, "completed": 0, "with_crash": 0}

    def judge(path, what):
        hists = S.histories_from_steps(path)
        for h in hists:
            for a in h["anomalies"]:
                chk.violation("C14:anomaly:%s" % a["what"].replace(" ", "-"), "%s: %s" % (what, a["what"]),
                              {"what": what, "meta": h["meta"], "anomaly": a, "ops": h["ops"]})
            for o in h["ops"]:
                if o["ret"] and o["kind"] == "put" and not o["ok"]:
                    chk.violation("C14:put-not-acknowledged-with-ack", "%s: a Put was answered with something else than the acknowledgement" % what,
                                  {"what": what, "meta": h["meta"], "ops": h["ops"]})
        bad = S.check_linearizable(chk, lwork, hists, chunks=6, timeout=1200)
        for b in bad:
            h = hists[b]
            chk.violation("C14:not-linearizable:%s:clients=%d" % (what.split()[0], len({o["c"] for o in h["ops"]})),
                          "%s: the history of acknowledged operations is not linearizable (KVLin search exhausted)" % what,
                          {"what": what, "meta": h["meta"], "ops": h["ops"]})
        totals["histories"] += len([h for h in hists if h["ops"]])
        totals["operations"] += sum(len(h["ops"]) for h in hists)
        totals["completed"] += sum(1 for h in hists for o in h["ops"] if o["ret"])
        big = max(hists, key=lambda h: len([o for o in h["ops"] if o["ret"]])) if hists else None
        if big and big["ops"]:
            chk.sample({"what": what, "seed": big["meta"].get("seed"), "ops": big["ops"][:8]})

    for cfg in t["random"][chk.tier]:
        # the executions S.safety drove (same seed, same arguments) are re-driven here: sysdrv is deterministic in its seed
        out = S.drive(chk, drv, "pbkvs", cfg["n"], cfg["policy"], cfg["runs"], cfg["steps"], args=cfg["args"], tag="-lin" + cfg["args"].replace(",", "").replace("=", ""))
        judge(out, "executions n=%d %s" % (cfg["n"], cfg["args"]))

    # 5: TLC-chosen schedules (S->I): simulation behaviours of pbkvs.tla followed by the generated code
    gwork = os.path.join(chk.tmp, "guided")
    text = S.prepare_spec(chk, t, gwork)
    for (n, args, num, depth) in guided:
        cs = S.subst_consts(t, n, args)
        cfgname = "sim_n%d.cfg" % n
        open(os.path.join(gwork, cfgname), "w").write("CONSTANTS\n" + "".join("  %s = %s\n" % kv for kv in cs.items()) +
                                                       "INIT Init\nNEXT Next\nINVARIANT ConsistencyOK\nCHECK_DEADLOCK FALSE\n")
        res, behs = T.simulate_behaviours(gwork, "pbkvs", cfgname, num, depth, chk.seed, timeout=1500, prefix="sim%d" % n)
        chk.add_tlc("pbkvs simulation behaviours n=%d %s (ConsistencyOK on every state)" % (n, args), res)
        behs = [b for b in behs if b]
        if behs:
            followed, total, gout = S.guided(chk, "C14", drv, gwork, "pbkvs", n, args, behs, "pbkvs guided n=%d" % n, as_violation=False)
            chk.notes.setdefault("guided_behaviours_followed", []).append("%d/%d n=%d" % (followed, total, n))
            judge(gout, "guided TLC behaviours n=%d %s" % (n, args))
    chk.notes["linearizability"] = totals
    if totals["completed"] == 0:
        raise V.Inconclusive("no client operation completed in any execution")
    chk.assumptions += ["TLC/SANY/Json", "spec-state env resources (harness/internal/sysdefs/pbkvs.go) implement the mapping macros of pbkvs.tla as written (PerfectFD, ReliableFIFOLink, NetworkToggle, LeaderElection, FileSystem, NetworkBufferLength, Channel); every state they produce is validated against pbkvs.tla by C02",
                        "logical stamps = positions in the global commit order of the gated execution; operations pending at the end may take effect or not",
                        "the store's initial value \"\" is read as not-found"]
    chk.gaps += ["fail-over sequences that need a crash between two sends of one replication round followed by a take-over and a read (seed C14-B) did not occur in 72 seeded executions with crash choices; such a defect is decided by C02's step conformance",
                 "the client workload is the spec's clientInput (two Puts and a Get on one key, shared by all clients)",
                 "real bootstrap (TCP mailboxes, real failure detector, files on disk) is not driven by this check; those resources are C06/C19/C01"]
    return chk.finish(rule="ConsistencyOK evaluated by TLC in every state of (a) the shipped spec (exhaustive / simulation), (b) the complete state graph of the generated code on small instances, (c) seeded executions of the generated archetypes under Run with crash choices; "
                           "client histories of (c) and of TLC behaviours replayed through the generated code judged by TLC on KVLin.tla")
