"""C02 -- generated Go takes exactly the steps its MPCal/PlusCal spec prescribes.

For every spec/Go pair bound in /verif/systems/*.json (table) + harness/internal/sysdefs (Go binding):
 (a) exact graphs: the complete state graph reached by the generated archetypes (fresh context per step,
     every resolution of either/with and environment choices) is compared with TLC's graph of the shipped
     .tla: every Go transition is validated by TLC as a step of the spec's Next, and the numbers of states
     and transitions are equal -- so the two graphs are the same (small instances);
 (b) executions under the real MPCalContext.Run loop with seeded schedules/choices: each committed step
     must be the logged label's action of the spec (large systems);
 (c) TLC simulation behaviours of the spec are followed step by step by the generated code (S->I).
The TLA+ translation in each .tla is regenerated with pcal from the checked-in PlusCal and compared.
"""
import os, re, shutil
import vcommon as V
import tracegen as T
import sysrun as S


def check_translation(chk, table):
    """The TLA+ translation TLC model-checks must be the translation of the checked-in PlusCal."""
    src = os.path.join(V.REPO, table["spec"])
    d = os.path.join(chk.tmp, "pcal-" + table["name"])
    os.makedirs(d, exist_ok=True)
    dst = os.path.join(d, table.get("spec_as") or os.path.basename(src))
    shutil.copy(src, dst)
    try:
        before = T.translation_region(open(dst).read())
    except V.Inconclusive:
        chk.gaps.append("%s: no TLA+ translation checked in (only PlusCal); nothing to compare" % table["name"])
        return
    if not before.strip():
        chk.gaps.append("%s: empty TLA+ translation checked in; nothing to compare" % table["name"])
        return
    try:
        V.pcal(d, os.path.basename(dst))
    except V.Inconclusive as e:
        chk.gaps.append("%s: pcal could not retranslate (%s)" % (table["name"], str(e)[:120]))
        return
    after = T.translation_region(open(dst).read())
    def norm(s):
        # the order of names in VARIABLES declarations and in the `vars` tuple is a pcal-version artefact
        def sort_names(m):
            names = sorted(x for x in re.split(r"[\s,]+", m.group(2)) if x)
            return m.group(1) + ", ".join(names) + m.group(3)
        s = re.sub(r"(VARIABLES?\s)((?:\s*\w+\s*,)*\s*\w+)(\s)", sort_names, s)
        s = re.sub(r"(vars == <<)(.*?)(>>)", sort_names, s, flags=re.S)
        # assertion messages quote source positions, which move when the file is edited above the block
        s = re.sub(r"Failure of assertion at line \d+, column \d+\.", "Failure of assertion.", s)
        return re.sub(r"\s+", " ", s).strip()
    if norm(before) != norm(after):
        chk.violation("C02:%s:stale-translation" % table["name"],
                      "%s: the TLA+ translation checked in differs from pcal's translation of the checked-in PlusCal" % table["spec"],
                      {"spec": table["spec"]})


def run(chk):
    tier = chk.tier
    drv = V.build_driver("sysdrv", chk.bindir)
    tables = S.load_tables()
    only = os.environ.get("VERIF_SYSTEMS")
    stats, walls = {}, {}
    todo = [t for t in tables if not (only and t["name"] not in only.split(","))]
    # the pairs are independent: run them side by side (largest first), each collecting into its own fork of chk
    weight = {"raftkvs": 0, "pbkvs": 1, "bug_167": 2, "nestedcrdtimpl": 3, "proxy": 4, "loadbalancer": 5}
    todo.sort(key=lambda t: weight.get(t["name"], 9))

    def one(t):
        import time
        t0 = time.time()
        sub = chk.fork()
        try:
            if t.get("pcal_check", True):
                check_translation(sub, t)
            st = S.conformance(sub, "C02", t, drv, tier)
        except V.Inconclusive as e:
            sub.inconclusive.append("%s: %s" % (t["name"], str(e)[:600]))
            st = None
        return t["name"], sub, st, time.time() - t0

    import concurrent.futures
    with concurrent.futures.ThreadPoolExecutor(max_workers=int(os.environ.get("VERIF_PAR", "5"))) as ex:
        for name, sub, st, wall in ex.map(one, todo):
            chk.merge(sub)
            stats[name] = st
            walls[name] = round(wall, 1)
    chk.notes["per_system"] = stats
    chk.notes["per_system_wall_s"] = walls
    bound = {t["name"] for t in tables}
    allpairs = ["locksvc", "raftkvs", "pbkvs", "dqueue", "proxy", "loadbalancer", "shopcart", "gcounter", "shcounter", "nestedcrdtimpl",
                "replicatedkv", "hello", "bug_119", "IndexingLocals", "NonDetExploration", "ProcedureSpaghetti", "PBFail4_bug125", "bug2_124", "bug_167", "ExprTests"]
    for p in allpairs:
        if p not in bound:
            chk.gaps.append("spec/Go pair not bound yet: " + p)
    chk.assumptions += ["TLC/SANY/pcal", "spec-state env resources (harness/internal/sysdefs) implement each mapping macro's text; every state they produce is validated against the spec",
                        "the Scala compiler cannot run offline: only checked-in outputs are verified",
                        "under-determined CHOOSE in a spec is relaxed to \\E for conformance runs where listed in the table (spec_rewrites)"]
    return chk.finish(rule="per bound pair: complete Go state graph vs TLC graph (small instances), seeded executions under Run validated per action, TLC behaviours followed by the Go")
