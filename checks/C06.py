"""C06 -- mailboxes and channels are reliable FIFO exactly-once transactional links.

spec/C06/Links.tla          P-spec: deterministic monitor over the events of the public resource API
spec/C06/LinksObs.tla       I->S: folds logs of the real resources into the monitor (verdicts)
spec/C06/TCPMailbox.tla     M-spec of tcpmailboxes.go (handshake, handlers, msgChannel, backlog, length)
spec/C06/RelaxedMailbox.tla M-spec of relaxedmailboxes.go (incl. the re-dial after a write time-out)
spec/C06/Chan.tla           M-spec of channels.go / raftkvs CustomInChan
harness/cmd/c06drv          hand-built archetypes under the real MPCalContext.Run over the real resources
                            (127.0.0.1 sockets / Go channels), every resource call logged by a decorator

1. design level: TLC checks M => P exhaustively (Mode "free": every interleaving, time-outs whenever a
   wait is not yet satisfied) and rejects deliberately broken variants (vacuity);
2. S->I: TLC simulates the M-specs in Mode "gen" (commands at quiescence); every behaviour is a
   command sequence with the M-spec's expected results; the driver issues the commands to the real
   code one at a time; result mismatches are model drift;
3. stress (concurrent seeded scripts), the write-time-out scenario (DESIGN 8 #15), shipped dqueue;
4. I->S: every recorded execution is folded by TLC through LinksObs.tla; an invariant violation on a
   real-code log is a VIOLATION.
"""
import concurrent.futures
import json
import os
import random
import re

import vcommon as V

INVS = ["FIFO", "Contiguous", "RedeliverFirst", "AllOrNothing", "LenBound", "Drained"]


def write_cfg(path, consts, invariants, view="MView"):
    with open(path, "w") as f:
        f.write("CONSTANTS\n")
        for k, v in consts.items():
            f.write("  %s = %s\n" % (k, json.dumps(v) if isinstance(v, str) else str(v).upper() if isinstance(v, bool) else v))
        f.write("INIT Init\nNEXT Next\n")
        if view:
            f.write("VIEW %s\n" % view)
        f.write("INVARIANTS %s\nCHECK_DEADLOCK FALSE\n" % " ".join(invariants))


TCP_INV = ["FIFO", "Contiguous", "RedeliverFirst", "AllOrNothing", "LenBound", "NoLossAtRest", "ChanBound", "SendqParked"]
RLX_INV = ["FIFO", "RedeliverFirst", "AllOrNothing", "LenBound", "Contiguous", "NoLossAtRest", "ChanBound"]
CHN_INV = ["FIFO", "RedeliverFirst", "AllOrNothing", "Contiguous", "NoLossAtRest", "ChanBound"]


def tcp_consts(**kw):
    c = dict(NS=1, Cap=1, MaxSeq=4, MaxMsg=2, MaxRd=3, MaxConn=3, Mode="free", Variant="code", CommitTO=False)
    c.update(kw)
    return c


def rlx_consts(**kw):
    c = dict(NS=1, Cap=1, SockCap=1, MaxSeq=5, MaxRd=2, MaxConn=3, Mode="free", Redial="drain", Variant="code")
    c.update(kw)
    return c


def chn_consts(**kw):
    c = dict(NS=2, Cap=2, MaxSeq=3, MaxMsg=2, MaxRd=2, Mode="free", Variant="code")
    c.update(kw)
    return c


def design_jobs(quick):
    """(name, module, consts, invariants, expect_violation or None, workers[, (num, depth) for -simulate])"""
    J = []
    # transactional TCP mailbox
    J.append(("TCPMailbox 1 sender deep", "TCPMailbox", tcp_consts(MaxSeq=3 if quick else 5), TCP_INV, None, 3))
    J.append(("TCPMailbox 2 senders", "TCPMailbox",
              tcp_consts(NS=2, MaxSeq=2, MaxRd=2 if not quick else 1, MaxConn=2 if not quick else 1), TCP_INV, None, 4))
    variants = [("pubpre", "AllOrNothing")]
    if not quick:
        variants += [("abortappend", "RedeliverFirst"), ("noreset", "AllOrNothing"), ("partial", "NoLossAtRest"),
                     ("abortlose", "RedeliverFirst"), ("lenover", "LenBound")]
    for v, inv in variants:
        J.append(("TCPMailbox variant %s (must be rejected)" % v, "TCPMailbox", tcp_consts(Variant=v), TCP_INV, inv, 2))
    if not quick:
        J.append(("TCPMailbox commit time-out + resend (outside the statement; duplicate expected)", "TCPMailbox",
                  tcp_consts(CommitTO=True), TCP_INV, "FIFO", 2))
    if not quick:
        J.append(("TCPMailbox 3 senders, free-mode simulation (40000 behaviours, depth 90)", "TCPMailbox",
                  tcp_consts(NS=3, Cap=2, MaxSeq=4, MaxMsg=3, MaxRd=3, MaxConn=3), TCP_INV, None, 6, (40000, 90)))
    # relaxed mailbox
    if not quick:
        J.append(("RelaxedMailbox no write time-out, 2 senders", "RelaxedMailbox",
                  rlx_consts(NS=2, SockCap=9, MaxSeq=3, MaxConn=2, Redial="immediate"), RLX_INV, None, 3))
    J.append(("RelaxedMailbox write time-out, re-dial after drain (fixed protocol)", "RelaxedMailbox",
              rlx_consts(MaxSeq=5 if quick else 7, MaxConn=3 if quick else 4), RLX_INV, None, 3))
    J.append(("RelaxedMailbox write time-out, immediate re-dial (pinned protocol; reordering expected)",
              "RelaxedMailbox", rlx_consts(MaxConn=2, Redial="immediate"), RLX_INV, "FIFO", 2))
    # channels
    J.append(("Chan 2 senders", "Chan", chn_consts(MaxSeq=2 if quick else 3), CHN_INV, None, 3))
    if not quick:
        J.append(("Chan variant early (OutputChan delivering before commit; must be rejected)", "Chan",
                  chn_consts(NS=1, Variant="early"), CHN_INV, "AllOrNothing", 2))
    return J


# --------------------------------------------------------------------------- S->I generation

GEN = {
    "tcp": ("TCPMailbox", lambda ns, cap: tcp_consts(NS=ns, Cap=cap, MaxSeq=6, MaxMsg=3, MaxRd=3, MaxConn=4, Mode="gen"), TCP_INV),
    "relaxed": ("RelaxedMailbox", lambda ns, cap: rlx_consts(NS=ns, Cap=cap, SockCap=99, MaxSeq=6, MaxRd=3, MaxConn=3, Mode="gen"), RLX_INV),
    "chan": ("Chan", lambda ns, cap: chn_consts(NS=ns, Cap=cap + 2, MaxSeq=6, MaxMsg=3, MaxRd=3, Mode="gen"), CHN_INV),
}

ST_RE = re.compile(r'^/\\ (last|out) = "([^"]*)"', re.M)


def parse_behaviour(text):
    """-> list of (command, expected result) of one simulated behaviour (Mode gen)."""
    steps = []
    for block in text.split("STATE_")[1:]:
        d = dict(ST_RE.findall(block))
        steps.append((d.get("last", ""), d.get("out", "")))
    cmds = []
    for i, (last, out) in enumerate(steps):
        if last in ("", "init", "tau"):
            continue
        j = i
        while j + 1 < len(steps) and steps[j + 1][0] == "tau":
            j += 1
        # the result is the value of "out" once the code is quiescent again ("" if the behaviour was cut before)
        cmds.append((last, steps[j][1]))
    return cmds


def to_case(fl, ns, cap, cmds, cid, custom=False, rt=150, wt=150):
    r = ns + 1
    out, exp = [], []
    for c, e in cmds:
        if c[0] in "WACV" and c[1:].isdigit():
            s = int(c[1:])
            op = c[0]
            out.append({"n": s, "op": op, "to": r} if op == "W" else {"n": s, "op": op})
        elif c == "RD":
            out.append({"n": r, "op": "RD"})
        elif c == "LN":
            out.append({"n": r, "op": "LN"})
        elif c == "RA":
            out.append({"n": r, "op": "A"})
        elif c == "RC":
            out.append({"n": r, "op": "C"})
        elif c == "L":
            out.append({"n": r, "op": "L"})
        else:
            raise V.Inconclusive("generator: unknown command %r" % c)
        exp.append(e)
    return {"case": cid, "fl": fl, "custom": custom, "senders": list(range(1, ns + 1)), "recvs": [r],
            "cap": cap + 2 if fl == "chan" else cap, "cmds": out, "exp": exp, "rt": rt, "wt": wt}


def generate(chk, work, fl, ns, cap, num, depth, seed, keep):
    module, cf, inv = GEN[fl]
    w = os.path.join(chk.tmp, "gen-%s-%d-%d" % (fl, ns, cap))
    V.copy_specs(work, w)
    cfg = "Gen.cfg"
    write_cfg(os.path.join(w, cfg), cf(ns, cap), inv)
    os.makedirs(os.path.join(w, "sim"))
    res = V.tlc(w, module, cfg=cfg, workers=1, timeout=900, deadlock=False,
                simulate="file=sim/b,num=%d" % num, depth=depth, seed=seed)
    name = "%s gen-mode simulation NS=%d Cap=%d (%d behaviours, depth %d; invariants checked on every state)" % (
        module, ns, cap, num, depth)
    chk.add_tlc(name, res)
    cases, seen = [], set()
    for f in sorted(os.listdir(os.path.join(w, "sim"))):
        cmds = parse_behaviour(open(os.path.join(w, "sim", f)).read())
        key = tuple(c for c, _ in cmds)
        if len(cmds) < 3 or key in seen:
            continue
        seen.add(key)
        cases.append(to_case(fl, ns, cap, cmds, "%s-n%d-c%d-%s" % (fl, ns, cap, f)))
    # keep the behaviours that exercise the rare corners (time-outs with a parked handler, veto after a
    # successful handshake, dial failure, long backlog) and a seeded sample of the others
    def rarity(c):
        n = 0
        for cmd, e in zip(c["cmds"], c["exp"]):
            if (cmd["op"] in "CV" and e == "t") or (cmd["op"] == "LN" and e not in ("0", "1")):
                n += 3
            elif e in ("v", "fail"):
                n += 1
        return n
    cases.sort(key=lambda c: (-rarity(c), c["case"]))
    rare = [c for c in cases if rarity(c) >= 3][: keep // 2]
    rest = [c for c in cases if c not in rare]
    random.Random(seed).shuffle(rest)
    return rare + rest[: keep - len(rare)]


# --------------------------------------------------------------------------- other case families

def stress_cases(rng, quick):
    cases = []
    n = 2 if quick else 10
    k = 0
    for fl, custom in (("tcp", False), ("relaxed", False), ("chan", False), ("chan", True)):
        for i in range(n if fl == "tcp" else max(1, n // 2)):
            k += 1
            ns = rng.choice([2, 3]) if fl != "relaxed" else rng.choice([1, 2])
            nr = rng.choice([1, 2])
            cases.append({"case": "stress-%s%s-%d" % (fl, "-custom" if custom else "", k), "fl": fl, "custom": custom,
                          "senders": list(range(1, ns + 1)), "recvs": list(range(ns + 1, ns + nr + 1)),
                          "cap": rng.choice([1, 1, 2, 3]), "sections": 14 if quick else 40, "seed": rng.randrange(1 << 30),
                          "rt": rng.choice([25, 40, 60]), "wt": rng.choice([25, 40, 60]),
                          "late": fl != "chan" and rng.random() < 0.4})
    return cases


def reorder_cases(quick):
    cs = [{"case": "reorder-relaxed-256k", "fl": "relaxed", "senders": [1], "recvs": [2], "cap": 1, "pad": 262144,
           "wt": 50, "rt": 50, "sections": 400, "items": 6},
          {"case": "reorder-tcp", "fl": "tcp", "senders": [1], "recvs": [2], "cap": 1, "pad": 0,
           "wt": 100, "rt": 50, "sections": 20, "items": 4}]
    if not quick:
        cs += [{"case": "reorder-relaxed-64k", "fl": "relaxed", "senders": [1], "recvs": [2], "cap": 2, "pad": 65536,
                "wt": 40, "rt": 50, "sections": 1200, "items": 8},
               {"case": "reorder-relaxed-1m", "fl": "relaxed", "senders": [1], "recvs": [2], "cap": 1, "pad": 1 << 20,
                "wt": 80, "rt": 50, "sections": 200, "items": 5},
               {"case": "reorder-tcp-256k", "fl": "tcp", "senders": [1], "recvs": [2], "cap": 1, "pad": 262144,
                "wt": 150, "rt": 50, "sections": 30, "items": 4}]
    return cs


def dqueue_cases(quick):
    return [{"case": "dqueue-%d" % i, "fl": "tcp", "senders": [0], "recvs": [], "cap": 1 + i % 2, "consumers": 1 + i % 3,
             "items": 10 if quick else 30, "rt": 60, "wt": 60} for i in range(2 if quick else 8)]


# --------------------------------------------------------------------------- run

def run_driver(chk, drv, mode, cases, par, timeout):
    if not cases:
        return []
    cf = os.path.join(chk.tmp, "cases-%s.ndjson" % mode)
    of = os.path.join(chk.tmp, "events-%s.ndjson" % mode)
    with open(cf, "w") as f:
        for c in cases:
            f.write(json.dumps(c) + "\n")
    rc, o = V.run([drv, "-mode", mode, "-cases", cf, "-out", of, "-par", str(par)], timeout=timeout)
    if rc != 0:
        raise V.Inconclusive("c06drv -mode %s failed rc=%s: %s" % (mode, rc, o[-2000:]))
    return V.split_cases(V.read_jsonl(of))


def run(chk):
    quick = chk.quick()
    rng = random.Random(chk.seed * 7919 + 6)
    work = os.path.join(chk.tmp, "spec")
    V.copy_specs(os.path.join(V.SPEC, "C06"), work)

    drv = V.build_driver("c06drv", chk.bindir)
    bycase = {}

    if chk.replay:
        rp = json.load(open(chk.replay))["case"]
        fams = {rp["mode"]: [rp["input"]]}
    else:
        # ---- 1. design level, all jobs concurrently
        jobs = design_jobs(quick)

        def one(job):
            name, module, consts, inv, expect, workers = job[:6]
            w = os.path.join(chk.tmp, "mc-" + re.sub(r"\W+", "_", name)[:60])
            V.copy_specs(work, w)
            write_cfg(os.path.join(w, "MC.cfg"), consts, inv)
            if len(job) > 6:
                return job, V.tlc(w, module, cfg="MC.cfg", workers=workers, timeout=2400, deadlock=False,
                                  simulate="num=%d" % job[6][0], depth=job[6][1], seed=chk.seed)
            return job, V.tlc(w, module, cfg="MC.cfg", workers=workers, timeout=900 if quick else 2400, deadlock=False)

        with concurrent.futures.ThreadPoolExecutor(max_workers=8) as ex:
            results = list(ex.map(one, jobs))
        rejected = []
        for job, res in results:
            name, module, consts, inv, expect, workers = job[:6]
            if expect is None:
                chk.add_tlc(name, res)
            else:
                chk.add_tlc(name, res, expect_violation=True)
                got = res.violation or ""
                if expect not in got and not res.timed_out and not res.error:
                    chk.inconclusive.append("vacuity: %s was not rejected with %s (TLC said: %s)" % (name, expect, got or "no error"))
                else:
                    rejected.append("%s -> %s" % (name, got))
        chk.exhaustive = all(r.ok for (j, r) in results if j[4] is None)
        chk.notes["broken_models_rejected"] = rejected

        # ---- 2. S->I generation
        plan = [("tcp", 2, 1), ("tcp", 1, 1), ("relaxed", 2, 1), ("chan", 2, 1)]
        if not quick:
            plan += [("tcp", 3, 2), ("tcp", 2, 2), ("relaxed", 1, 2), ("chan", 3, 2)]
        plan = [("tcp", 2, 1), ("relaxed", 2, 1), ("chan", 2, 1)] if quick else plan
        num = {"tcp": 700, "relaxed": 200, "chan": 200} if quick else {"tcp": 3000, "relaxed": 1000, "chan": 1000}
        keep = {"tcp": 110, "relaxed": 30, "chan": 30} if quick else {"tcp": 500, "relaxed": 220, "chan": 220}

        def gen(p):
            fl, ns, cap = p
            return generate(chk, work, fl, ns, cap, num[fl], 60 if quick else 90, chk.seed * 31 + ns * 7 + cap, keep[fl])

        with concurrent.futures.ThreadPoolExecutor(max_workers=4) as ex:
            sched = [c for cs in ex.map(gen, plan) for c in cs]
        # CustomInChan: the channel behaviours again, receivers built from raftkvs.NewCustomInChan
        custom = [dict(c, case=c["case"] + "-custom", custom=True) for c in sched if c["fl"] == "chan"][: (10 if quick else 120)]
        sched += custom
        outcomes = {}
        for c in sched:
            for cmd, e in zip(c["cmds"], c["exp"]):
                k = cmd["op"] + ":" + ("msg" if "." in e else e)
                outcomes[k] = outcomes.get(k, 0) + 1
        chk.notes["generated_commands_by_expected_result"] = dict(sorted(outcomes.items()))
        fams = {"sched": sched, "stress": stress_cases(rng, quick), "reorder": reorder_cases(quick),
                "dqueue": dqueue_cases(quick)}

    # ---- 3. real code
    inputs = {}
    segs = []
    for mode, cases in fams.items():
        for c in cases:
            inputs[c["case"]] = (mode, c)
        par = {"sched": 10, "stress": 4, "reorder": 2, "dqueue": 2}[mode]
        got = run_driver(chk, drv, mode, cases, par, timeout=1500 if quick else 3000)
        segs += got
    chk.notes["cases_run"] = {m: len(c) for m, c in fams.items()}
    chk.notes["events_recorded"] = sum(len(s) for s in segs)

    clean = []
    drift_cases = 0
    compared = 0
    for s in segs:
        cid = s[0].get("case")
        mode, inp = inputs.get(cid, (s[0].get("mode"), None))
        bad = [e for e in s if e.get("e") in ("hang", "panic")]
        if bad:
            chk.inconclusive.append("case %s (%s): %s %s" % (cid, mode, bad[0]["e"], bad[0].get("what") or bad[0].get("msg")))
            continue
        clean.append(s)
        # M-level conformance: results of the commands vs the M-spec's expectation (drift only)
        for e in s:
            if e.get("e") == "res" and e.get("exp", "") != "":
                compared += 1
                if e["got"] != e["exp"] and not (e["op"] == "V" and e["got"] == "v" and e["exp"] == "t"):
                    drift_cases += 1
                    if len(chk.drift) < 12:
                        chk.drift.append({"case": cid, "command": e["i"], "op": e["op"], "node": e["n"],
                                          "model": e["exp"], "code": e["got"]})
                    break
    chk.notes["m_level_results_compared"] = compared
    chk.notes["m_level_cases_with_drift"] = drift_cases

    # ---- 4. P-level verdicts by TLC
    obs = V.fold_traces(work, "LinksObs", "LinksObs.cfg", clean, timeout=1800, chunks=4 if quick else 10)
    chk.states += obs["states"]
    chk.transitions += obs["transitions"]
    chk.traces += obs["accepted"]
    for e in obs["errors"]:
        chk.inconclusive.append("LinksObs: " + e)
    for r in obs["rejected"]:
        seg = r["seg"]
        cid = seg[0].get("case")
        mode, inp = inputs.get(cid, (seg[0].get("mode"), None))
        inv = "rejected"
        for name in INVS:
            if name in r["text"]:
                inv = name
        ev = seg[min(max(r["line_in_seg"] - 1, 0), len(seg) - 1)]
        chk.violation("C06:%s:fl=%s%s:mode=%s" % (inv, seg[0].get("fl"), "+custom" if seg[0].get("custom") else "", mode),
                      "real resources (%s, %s mode, case %s) violate %s at event %d of the log: %s" % (
                          seg[0].get("fl"), mode, cid, inv, r["line_in_seg"], json.dumps(ev)),
                      {"mode": mode, "input": inp, "line_in_seg": r["line_in_seg"], "tlc": r["text"],
                       "events_before": seg[max(0, r["line_in_seg"] - 40): r["line_in_seg"]]})
    for s in clean[:2] + clean[-3:]:
        chk.sample({"case": s[0].get("case"), "fl": s[0].get("fl"), "mode": s[0].get("mode"),
                    "events": [e for e in s[1:] if e.get("e") not in ("pc", "ce")][:16]})
    chk.assumptions += ["TLC/SANY/Json module", "the logging decorator of c06drv (forwards every call unchanged)",
                        "payloads <<sender, seq>> are unique, so the sender of a received message is unambiguous",
                        "loss at quiescence is decided after the resource itself reported K consecutive read time-outs "
                        "once every sender's Commit had returned (K=40/100), never by elapsed time alone",
                        "connection failure during Commit (ack lost, resend) is outside the statement and not injected"]
    chk.gaps += ["TCP mailbox: a commit time-out re-sends the batch on a new connection while the old handler may still "
                 "publish it (duplicate; model-level counterexample MCTCPMailboxCommitTO.cfg); needs a handler stalled "
                 "between its two acks, which the harness cannot schedule without a hook (H6 not added)",
                 "SingleOutputChan is not bound"]
    return chk.finish(rule="TLC simulates the M-specs in generator mode (commands at quiescence) -> every distinct "
                           "behaviour is replayed command by command on the real resources under MPCalContext.Run; "
                           "plus seeded concurrent stress scripts, the write-time-out/re-dial scenario and the shipped "
                           "dqueue archetypes; every log is folded by TLC through LinksObs.tla (%s)" % ", ".join(INVS))
